From KV Require Import Base.Prelude Base.Exn Base.Bytes Model.Data Model.Wire.
From Coq Require Import Sorting.Permutation Sorting.Sorted.

(* ------------------------------------------------------------------ *)
(* Key tag: implementation formula = RFC 4034 Appendix B reference    *)
(* ------------------------------------------------------------------ *)

(* RFC 4034 App. B, with "unsigned long ac" taken as a 32-bit accumulator:
     for (ac = 0, i = 0; i < keysize; ++i) ac += (i & 1) ? key[i] : key[i] << 8;
     ac += (ac >> 16) & 0xFFFF;  return ac & 0xFFFF;                          *)
Definition M32 := 4294967296.
Fixpoint rfc_acc (odd : bool) (ac : Z) (l : list Z) : Z :=
  match l with
  | [] => ac
  | b :: t => rfc_acc (negb odd) ((ac + (if odd then b else b * 256)) mod M32) t
  end.
Definition rfc4034_keytag (rdata : list Z) : Z :=
  let ac := rfc_acc false 0 rdata in
  let ac' := (ac + (ac / 65536) mod 65536) mod M32 in
  ac' mod 65536.

Lemma tag_sum_bound l : bytes l -> forall odd acc, 0 <= acc ->
  acc <= tag_sum odd acc l <= acc + 65280 * len l.
Proof.
  unfold len. induction 1 as [|b l Hb _ IH]; intros odd acc Hacc; cbn [tag_sum length].
  - lia.
  - unfold byte in Hb. rewrite Z.shiftl_mul_pow2 by lia. change (2^8) with 256.
    destruct odd; cbn [negb].
    + specialize (IH false (acc + b)). lia.
    + specialize (IH true (acc + b * 256)). lia.
Qed.

Lemma rfc_acc_eq l : bytes l -> forall odd acc, 0 <= acc ->
  acc + 65280 * len l < M32 -> rfc_acc odd acc l = tag_sum odd acc l.
Proof.
  unfold len. induction 1 as [|b l Hb _ IH]; intros odd acc Hacc Hlt; cbn [rfc_acc tag_sum length] in *.
  - reflexivity.
  - unfold byte in Hb. rewrite Z.shiftl_mul_pow2 by lia. change (2^8) with 256.
    unfold M32 in *.
    destruct odd; cbn [negb]; rewrite Z.mod_small by lia; apply IH; lia.
Qed.

Theorem keytag_is_rfc4034B rdata :
  bytes rdata -> len rdata <= 65535 -> key_tag_of_rdata rdata = rfc4034_keytag rdata.
Proof.
  intros Hb Hl. unfold key_tag_of_rdata, rfc4034_keytag.
  rewrite (rfc_acc_eq rdata Hb false 0) by (unfold M32; lia).
  pose proof (tag_sum_bound rdata Hb false 0 ltac:(lia)) as B.
  set (s := tag_sum false 0 rdata) in *.
  change 65535 with (Z.ones 16). rewrite !Z.land_ones by lia.
  rewrite Z.shiftr_div_pow2 by lia. change (2^16) with 65536.
  unfold M32. lia.
Qed.

Lemma key_tag_range rdata : 0 <= key_tag_of_rdata rdata < 65536.
Proof.
  unfold key_tag_of_rdata. change 65535 with (Z.ones 16).
  rewrite (Z.land_ones (_ + _)) by lia. change (2^16) with 65536. lia.
Qed.

(* ------------------------------------------------------------------ *)
(* RDATA layout and its inverse                                         *)
(* ------------------------------------------------------------------ *)
Definition rdata_parse (r : list Z) : option (Z * Z * Z * list Z) :=
  match r with
  | f1 :: f0 :: p :: a :: pub => Some (f1 * 256 + f0, p, a, pub)
  | _ => None
  end.

Theorem rdata_layout flags proto alg pub r :
  key_to_rdata_raw flags proto alg pub = OK r ->
  r = [flags / 256; flags mod 256; proto; alg] ++ pub /\
  rdata_parse r = Some (flags, proto, alg, pub).
Proof.
  unfold key_to_rdata_raw, in_u16, in_u8, pack2, pack1.
  destruct (_ && _ && _) eqn:E; [|discriminate]. intros [= <-].
  assert (flags / 256 mod 256 = flags / 256) as -> by lia.
  assert (proto mod 256 = proto) as -> by lia.
  assert (alg mod 256 = alg) as -> by lia.
  split; [reflexivity|]. cbn. do 4 f_equal. lia.
Qed.

Theorem rdata_rejects_out_of_range flags proto alg pub :
  (flags < 0 \/ 65535 < flags \/ proto < 0 \/ 255 < proto \/ alg < 0 \/ 255 < alg) ->
  key_to_rdata_raw flags proto alg pub = Raise StructError.
Proof.
  unfold key_to_rdata_raw, in_u16, in_u8. intros H.
  destruct (_ && _ && _) eqn:E; [lia|reflexivity].
Qed.

(* ------------------------------------------------------------------ *)
(* RFC 3110 codec round trip                                            *)
(* ------------------------------------------------------------------ *)
Lemma from_be_app l b acc : fold_left be_acc (l ++ [b]) acc = fold_left be_acc l acc * 256 + b.
Proof. rewrite fold_left_app. reflexivity. Qed.

Lemma to_be_length k n : length (to_be k n) = k.
Proof. revert n; induction k; intros n; cbn; [reflexivity|]. rewrite app_length, IHk. cbn. lia. Qed.

Lemma from_be_to_be k : forall n, 0 <= n -> from_be (to_be k n) = n mod 256 ^ Z.of_nat k.
Proof.
  unfold from_be. induction k as [|k IH]; intros n Hn.
  - cbn. rewrite Z.mod_1_r. reflexivity.
  - cbn [to_be]. rewrite from_be_app, IH by (apply Z.div_pos; lia).
    rewrite Nat2Z.inj_succ, Z.pow_succ_r by lia.
    rewrite (Z.rem_mul_r n 256 (256 ^ Z.of_nat k)) by lia. lia.
Qed.

Lemma byte_len_fuel_bound f : forall n, n < 2 ^ Z.of_nat f ->
  n < 256 ^ Z.of_nat (byte_len_fuel f n).
Proof.
  induction f as [|f IH]; intros n Hn.
  - cbn in *. lia.
  - cbn [byte_len_fuel]. destruct (n <=? 0) eqn:E.
    + cbn. lia.
    + rewrite Nat2Z.inj_succ, Z.pow_succ_r in Hn by lia.
      specialize (IH (n / 256) ltac:(lia)).
      rewrite Nat2Z.inj_succ, Z.pow_succ_r by lia. lia.
Qed.

Lemma byte_len_bound n : 0 < n -> n < 256 ^ Z.of_nat (byte_len n).
Proof.
  intros Hn. unfold byte_len. apply byte_len_fuel_bound.
  rewrite Z2Nat.id by (pose proof (Z.log2_nonneg n); lia).
  pose proof (Z.log2_spec n Hn) as [_ H]. 
  replace (Z.log2 n + 2) with (Z.succ (Z.succ (Z.log2 n))) by lia.
  rewrite (Z.pow_succ_r 2 (Z.succ _)) by (pose proof (Z.log2_nonneg n); lia). lia.
Qed.

Lemma byte_len_pos n : 0 < n -> (0 < byte_len n)%nat.
Proof.
  intros Hn. unfold byte_len.
  destruct (Z.to_nat (Z.log2 n + 2)) eqn:E.
  - pose proof (Z.log2_nonneg n). lia.
  - cbn. destruct (n <=? 0) eqn:E2; lia.
Qed.

Lemma firstn_app_exact {A} (a b : list A) k : length a = k -> firstn k (a ++ b) = a.
Proof. intros <-. rewrite firstn_app, Nat.sub_diag, firstn_all. cbn. apply app_nil_r. Qed.
Lemma skipn_app_exact {A} (a b : list A) k : length a = k -> skipn k (a ++ b) = b.
Proof. intros <-. rewrite skipn_app, Nat.sub_diag, skipn_all. reflexivity. Qed.

Theorem rfc3110_roundtrip e n b :
  0 < e -> rsa_encode e n = OK b ->
  rsa_decode b = OK (mkRsaPub (len n * 8) e n) /\
  (* short (one-octet) length form exactly when the exponent fits 255 octets *)
  (Z.of_nat (byte_len e) <= 255 -> hd 0 b = Z.of_nat (byte_len e)) /\
  (255 < Z.of_nat (byte_len e) -> hd 1 b = 0).
Proof.
  intros He. unfold rsa_encode.
  assert (e <? 0 = false) as -> by lia.
  pose proof (byte_len_pos e He) as Hpos. pose proof (byte_len_bound e He) as Hbnd.
  set (el := byte_len e) in *.
  assert (Hfb : from_be (to_be el e) = e) by (rewrite from_be_to_be by lia; apply Z.mod_small; lia).
  destruct (255 <? Z.of_nat el) eqn:E.
  - unfold in_u16. destruct (_ && _) eqn:E16; [|discriminate]. intros [= <-].
    split; [|split; [lia|reflexivity]].
    unfold pack2. cbn [app rsa_decode].
    assert (Hk : Z.to_nat (Z.of_nat el / 256 mod 256 * 256 + Z.of_nat el mod 256) = el) by lia.
    rewrite Hk, firstn_app_exact, skipn_app_exact by apply to_be_length. rewrite Hfb. reflexivity.
  - intros [= <-]. split; [|split; [intros _; unfold pack1; cbn; lia|lia]].
    unfold pack1. cbn [app]. rewrite Z.mod_small by lia.
    unfold rsa_decode. destruct (Z.of_nat el) eqn:Ez; try lia.
    rewrite <- Ez, Nat2Z.id, firstn_app_exact, skipn_app_exact by apply to_be_length.
    rewrite Hfb. reflexivity.
Qed.

(* ------------------------------------------------------------------ *)
(* ECDSA forms                                                          *)
(* ------------------------------------------------------------------ *)
Definition curve_ok (c : Z) := c = 256 \/ c = 384.

Lemma len_cons x l : len (x :: l) = len l + 1.
Proof. unfold len; cbn [length]; lia. Qed.

(* bare SEC1 point 04|X|Y. The shipped heuristic has one ambiguity: a bare point whose X
   coordinate begins with the octets (len-2, 4) is taken for a DER-wrapped one (and then
   rejected for its length) - excluded here by [der_wrapped (4 :: q) = false]. *)
Theorem ecdsa_token_point_bare q curve :
  curve_ok curve -> len q * 8 / 2 = curve -> der_wrapped (4 :: q) = false ->
  p11_ec_point_to_pub (4 :: q) curve = OK (Some q).
Proof.
  intros Hc Hl Hw. unfold p11_ec_point_to_pub. rewrite Hw, len_cons.
  destruct ((len q + 1 - 2 <? 0) || (255 <? len q + 1 - 2)) eqn:E; [destruct Hc; lia|].
  cbv zeta. assert ((len q + 1 - 1) * 8 / 2 =? curve = true) as -> by lia. reflexivity.
Qed.

(* DER OCTET STRING wrapped point 04 len 04|X|Y (what SoftHSM2 returns) *)
Theorem ecdsa_token_point_wrapped q curve :
  curve_ok curve -> len q * 8 / 2 = curve ->
  p11_ec_point_to_pub (4 :: (len q + 1) :: 4 :: q) curve = OK (Some q).
Proof.
  intros Hc Hl. unfold p11_ec_point_to_pub.
  assert (Hw : der_wrapped (4 :: len q + 1 :: 4 :: q) = true).
  { unfold der_wrapped. rewrite !len_cons. lia. }
  rewrite Hw, !len_cons. cbn [skipn]. rewrite len_cons.
  destruct ((len q + 1 + 1 + 1 - 2 <? 0) || (255 <? len q + 1 + 1 + 1 - 2)) eqn:E; [destruct Hc; lia|].
  cbv zeta. assert ((len q + 1 - 1) * 8 / 2 =? curve = true) as -> by lia. reflexivity.
Qed.

Lemma der_wrapped_inv p : der_wrapped p = true -> exists l t, p = 4 :: l :: 4 :: t /\ l = len p - 2.
Proof.
  unfold der_wrapped. destruct p as [|a [|l [|c t]]].
  - discriminate.
  - rewrite match4. destruct (a =? 4); discriminate.
  - rewrite match4. destruct (a =? 4); discriminate.
  - rewrite match4. destruct (a =? 4) eqn:Ea; [|discriminate].
    rewrite match4. destruct (c =? 4) eqn:Ec; [|discriminate].
    intros H. apply Z.eqb_eq in Ea, Ec, H. subst a c. exists l, t. split; [reflexivity|exact H].
Qed.

(* whatever the token returns, a derived key has the RFC 6605 length and is the point's X|Y *)
Theorem ecdsa_token_point_sound point curve q :
  p11_ec_point_to_pub point curve = OK (Some q) ->
  len q * 8 / 2 = curve /\ (point = 4 :: q \/ exists l, point = 4 :: l :: 4 :: q).
Proof.
  unfold p11_ec_point_to_pub. destruct point as [|x point]; [discriminate|].
  destruct (_ || _); [discriminate|]. cbv zeta.
  destruct (der_wrapped (x :: point)) eqn:Hw.
  - apply der_wrapped_inv in Hw as (l & t & -> & _).
    cbn [skipn]. rewrite len_cons.
    destruct (negb _) eqn:E; [discriminate|]. intros [= <-]. split; [lia|right; eauto].
  - rewrite len_cons. destruct (negb _) eqn:E; [discriminate|].
    rewrite match4. destruct (x =? 4) eqn:Ex; [|discriminate].
    intros [= <-]. split; [lia|left; f_equal; lia].
Qed.

(* RFC 6605 key -> SEC1 point for the crypto library: adds 04 *)
Theorem ecdsa_rfc6605_to_sec1 q alg :
  (alg = ECDSAP256SHA256 /\ len q = 64) \/ (alg = ECDSAP384SHA384 /\ len q = 96) ->
  ecdsa_to_sec1 q alg = 4 :: q.
Proof. unfold ecdsa_to_sec1. intros [[-> ->]|[-> ->]]; reflexivity. Qed.


(* ------------------------------------------------------------------ *)
(* RRSIG to-be-signed data                                              *)
(* ------------------------------------------------------------------ *)
Definition key_in_range (k : Key) : bool :=
  in_u16 (k_flags k) && in_u8 (k_proto k) && in_u8 (k_alg k).
Definition raw_rdata (k : Key) : list Z :=
  pack2 (k_flags k) ++ pack1 (k_proto k) ++ pack1 (k_alg k) ++ k_pub k.

Lemma rdatas_char keys :
  rdatas keys = if forallb key_in_range keys then OK (map raw_rdata keys) else Raise StructError.
Proof.
  induction keys as [|k t IH]; cbn [rdatas forallb map]; [reflexivity|].
  unfold key_to_rdata, key_to_rdata_raw. fold (key_in_range k).
  destruct (key_in_range k); cbn [bind andb]; [|reflexivity].
  rewrite IH. destruct (forallb key_in_range t); reflexivity.
Qed.

Definition rr_fits (r : list Z) : bool := in_u16 (len r).
Definition rr_wire (prefix r : list Z) : list Z := prefix ++ pack2 (len r) ++ r.

Lemma emit_rrs_char prefix rs :
  emit_rrs prefix rs = if forallb rr_fits rs then OK (concat (map (rr_wire prefix) rs)) else Raise StructError.
Proof.
  induction rs as [|r t IH]; cbn [emit_rrs forallb map concat]; [reflexivity|].
  fold (rr_fits r). destruct (rr_fits r); cbn [andb]; [|reflexivity].
  rewrite IH. destruct (forallb rr_fits t); cbn [bind]; [|reflexivity].
  unfold rr_wire. rewrite <- !app_assoc. reflexivity.
Qed.

Lemma forallb_perm {A} (f : A -> bool) l1 l2 : Permutation l1 l2 -> forallb f l1 = forallb f l2.
Proof.
  induction 1; cbn; try congruence.
  - rewrite !andb_assoc, (andb_comm (f y)). reflexivity.
Qed.

(* RFC 4034 section 3.1.8.1 + 6.3, stated declaratively:
   signature_data = RRSIG_RDATA (without signature) | RR(1) | RR(2) ...
   RR(i) = owner | type | class | OrigTTL | RDLENGTH | RDATA, the RRs being the DNSKEY RDATAs of
   exactly the given keys, in canonical (ascending octet string) order. *)
Definition rfc4034_signature_data (s : Sig) (keys : list Key) (out : list Z) : Prop :=
  exists ordered,
    Permutation (map raw_rdata keys) ordered /\ StronglySorted lexR ordered /\
    out = pack2 (s_type s) ++ pack1 (s_alg s) ++ pack1 (s_labels s) ++ pack4 (s_ottl s)
          ++ pack4 (s_exp s / usec) ++ pack4 (s_inc s / usec) ++ pack2 (s_tag s) ++ [0]
          ++ concat (map (fun r => [0] ++ pack2 (s_type s) ++ pack2 1 ++ pack4 (s_ottl s)
                                   ++ pack2 (len r) ++ r) ordered).

Theorem make_raw_rrsig_is_rfc s keys out :
  make_raw_rrsig s keys = OK out -> rfc4034_signature_data s keys out.
Proof.
  unfold make_raw_rrsig. destruct (_ && _) eqn:E; [|discriminate].
  unfold dn2wire. destruct (text_eqb (s_name s) dot); [|discriminate]. cbn [bind].
  rewrite rdatas_char. destruct (forallb key_in_range keys); [|discriminate]. cbn [bind].
  rewrite emit_rrs_char. destruct (forallb rr_fits _); [|discriminate]. cbn [bind].
  intros [= <-]. exists (sort_bytes (map raw_rdata keys)).
  split; [apply sort_perm|]. split; [apply sort_sorted|].
  unfold rr_wire, rr_prefix, CLASS_IN. rewrite <- ?app_assoc.
  repeat (f_equal; try reflexivity).
Qed.

(* the RFC data is unique: the spec determines the octets *)
Theorem rfc4034_signature_data_unique s keys o1 o2 :
  rfc4034_signature_data s keys o1 -> rfc4034_signature_data s keys o2 -> o1 = o2.
Proof.
  intros (l1 & P1 & S1 & ->) (l2 & P2 & S2 & ->).
  assert (l1 = l2) as ->; [|reflexivity].
  apply sorted_perm_eq; auto. eapply perm_trans; [apply Permutation_sym; exact P1|exact P2].
Qed.

(* keys are a set in the implementation: iteration order must not matter *)
Theorem tbs_perm_invariant s keys keys' :
  Permutation keys keys' -> make_raw_rrsig s keys = make_raw_rrsig s keys'.
Proof.
  intros P. unfold make_raw_rrsig. destruct (_ && _); [|reflexivity].
  destruct (dn2wire (s_name s)); [|reflexivity]. cbn [bind].
  rewrite !rdatas_char, (forallb_perm _ _ _ P).
  destruct (forallb key_in_range keys'); [|reflexivity]. cbn [bind].
  rewrite (sort_bytes_perm_invariant (map raw_rdata keys) (map raw_rdata keys')); [reflexivity|].
  apply Permutation_map; exact P.
Qed.

(* fields: a successfully built TBS starts with the stated header fields *)
Theorem tbs_header s keys out :
  make_raw_rrsig s keys = OK out ->
  0 <= s_type s < 65536 /\ 0 <= s_alg s < 256 /\ 0 <= s_labels s < 256 /\ 0 <= s_ottl s < 4294967296 /\
  0 <= s_exp s / usec < 4294967296 /\ 0 <= s_inc s / usec < 4294967296 /\ 0 <= s_tag s < 65536 /\
  s_name s = dot.
Proof.
  unfold make_raw_rrsig, in_u16, in_u8, in_u32. destruct (_ && _) eqn:E; [|discriminate].
  unfold dn2wire. destruct (text_eqb (s_name s) dot) eqn:En; [|discriminate].
  apply text_eqb_spec in En. intros _. repeat split; try lia; exact En.
Qed.

(* ------------------------------------------------------------------ *)
(* Revocation                                                           *)
(* ------------------------------------------------------------------ *)
Theorem as_revoked_only_bit7 k k' :
  as_revoked k = OK k' ->
  k_flags k' = Z.lor (k_flags k) 128 /\
  (forall i, i <> 7 -> Z.testbit (k_flags k') i = Z.testbit (k_flags k) i) /\
  Z.testbit (k_flags k') 7 = true /\
  k_id k' = k_id k /\ k_ttl k' = k_ttl k /\ k_proto k' = k_proto k /\ k_alg k' = k_alg k /\
  k_pubtxt k' = k_pubtxt k /\ k_pub k' = k_pub k /\
  calculate_key_tag k' = OK (k_tag k').
Proof.
  unfold as_revoked, calculate_key_tag, key_to_rdata. cbn [k_flags k_proto k_alg k_pub].
  destruct (key_to_rdata_raw _ _ _ _) eqn:E; [|discriminate]. cbn [bind]. intros [= <-].
  cbn [k_flags k_id k_ttl k_proto k_alg k_pubtxt k_pub k_tag]. rewrite E. cbn [bind].
  repeat split; try reflexivity.
  - intros i Hi. rewrite Z.lor_spec. change FLAG_REVOKE with (2^7).
    rewrite (Z.pow2_bits_false 7 i) by lia. apply orb_false_r.
  - rewrite Z.lor_spec. change FLAG_REVOKE with (2^7). rewrite Z.pow2_bits_true by lia. apply orb_true_r.
Qed.

(* DS digest preimage = owner name wire form | DNSKEY RDATA (RFC 4509 / 4034 5.1.4) *)
Theorem ds_preimage_layout k out :
  ds_preimage dot k = OK out ->
  out = [0] ++ pack2 (k_flags k) ++ pack1 (k_proto k) ++ pack1 (k_alg k) ++ k_pub k.
Proof.
  unfold ds_preimage, dn2wire. rewrite text_eqb_refl. cbn [bind].
  unfold key_to_rdata, key_to_rdata_raw. destruct (_ && _); [|discriminate]. cbn [bind].
  intros [= <-]. reflexivity.
Qed.

(* non-vacuity examples *)
Example keytag_example :
  key_tag_of_rdata [1;1;3;8;3;1;0;1;255;254;253] = rfc4034_keytag [1;1;3;8;3;1;0;1;255;254;253].
Proof. vm_compute. reflexivity. Qed.
Example rfc3110_example_long :
  exists b, rsa_encode (2 ^ 2040 + 1) [7;7] = OK b /\ hd 1 b = 0 /\ rsa_decode b = OK (mkRsaPub 16 (2 ^ 2040 + 1) [7;7]).
Proof. eexists. split; [vm_compute; reflexivity|]. split; vm_compute; reflexivity. Qed.
