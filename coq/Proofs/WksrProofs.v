From KV Require Import Base.Prelude Base.Exn Base.Bytes Model.Data Model.Wire Model.KsrPolicy Model.Chain Model.Duration Model.Datetime Model.Wksr
  Proofs.DurationProofs Proofs.TokenProofs.

(* ---------------- file names ---------------- *)
Lemma wash_from_safe s : forall b c, In c (wash_from b s) -> safe_char c = true.
Proof.
  induction s as [|x t IH]; intros b c H; cbn [wash_from] in H; [destruct H|].
  destruct (safe_char x) eqn:E.
  - destruct H as [<-|H]; [exact E|eapply IH; exact H].
  - destruct b; [eapply IH; exact H|]. destruct H as [<-|H]; [reflexivity|eapply IH; exact H].
Qed.

Theorem washed_name_safe s c : In c (wash s) -> safe_char c = true.
Proof. apply wash_from_safe. Qed.

Lemma digit_safe c : is_digit c = true -> safe_char c = true.
Proof. unfold is_digit, safe_char. intros H. lia. Qed.

Lemma dec_safe n c : In c (dec n) -> safe_char c = true.
Proof. intros H. apply digit_safe. pose proof (dec_digits n) as D. rewrite forallb_forall in D. apply D. exact H. Qed.

Lemma pad2_safe n c : In c (pad2 n) -> safe_char c = true.
Proof. unfold pad2. destruct (n <? 10); [intros [<-|H]; [reflexivity|eapply dec_safe; exact H]|apply dec_safe]. Qed.

Lemma pad4_safe n c : In c (pad4 n) -> safe_char c = true.
Proof.
  unfold pad4. destruct (n <? 10); [|destruct (n <? 100); [|destruct (n <? 1000)]]; cbn [In]; intros H;
    repeat (destruct H as [<-|H]; [reflexivity|]); eapply dec_safe; exact H.
Qed.

Lemma suffix_safe us c : In c (suffix us) -> safe_char c = true.
Proof.
  unfold suffix, pad6. destruct (civil_from_days (us / 1000000 / 86400)) as [[y m] d].
  rewrite !in_app_iff. cbn [In].
  intros H. repeat match goal with
  | H : _ \/ _ |- _ => destruct H as [H|H]
  | H : False |- _ => destruct H
  | H : 95 = c |- _ => subst c; reflexivity
  | H : In c (pad2 _) |- _ => eapply pad2_safe; exact H
  | H : In c (pad4 _) |- _ => eapply pad4_safe; exact H
  end.
Qed.

(* the stored name: only [A-Za-z0-9_-] and the dots of the fixed extension; in particular no separator, no NUL, not '.' or '..' *)
Theorem stored_name_chars name now c : In c (stored_name name now) -> safe_char c = true \/ c = 46.
Proof.
  unfold stored_name. rewrite !in_app_iff. intros [H|[H|H]].
  - left. eapply washed_name_safe; exact H.
  - left. eapply suffix_safe; exact H.
  - unfold dot_xml in H. cbn [In] in H. destruct H as [<-|[<-|[<-|[<-|[]]]]]; auto.
Qed.

Theorem stored_name_confined name now :
  has_sep (stored_name name now) = false /\ ~ In 0 (stored_name name now) /\ ~ In 92 (stored_name name now) /\
  (exists stem, stored_name name now = stem ++ dot_xml /\ ~ In 46 stem /\ stem <> []).
Proof.
  assert (Hc : forall c, In c (stored_name name now) -> c <> 47 /\ c <> 0 /\ c <> 92).
  { intros c H. apply stored_name_chars in H as [H| ->]; [unfold safe_char in H; lia|lia]. }
  split; [|split; [|split]].
  - unfold has_sep. destruct (existsb (fun c => c =? 47) (stored_name name now)) eqn:E; [|reflexivity].
    apply existsb_exists in E as (c & Hin & Hc'). apply Hc in Hin. lia.
  - intros H. apply Hc in H. lia.
  - intros H. apply Hc in H. lia.
  - exists (wash name ++ suffix now). split; [unfold stored_name; rewrite app_assoc; reflexivity|]. split.
    + intros H. apply in_app_iff in H as [H|H]; [apply washed_name_safe in H|apply suffix_safe in H]; unfold safe_char in H; lia.
    + unfold suffix. destruct (civil_from_days (now / 1000000 / 86400)) as [[y m] d]. intros H. apply app_eq_nil in H as [_ H]. discriminate H.
Qed.

Theorem stored_path_in_upload_dir dir name now :
  join_path dir (stored_name name now) = dir ++ [47] ++ stored_name name now.
Proof.
  unfold join_path. destruct (stored_name name now) as [|c t] eqn:E; [reflexivity|].
  destruct (Z.eq_dec c 47) as [->|Hne].
  - exfalso. destruct (stored_name_confined name now) as [Hs _]. rewrite E in Hs. cbn in Hs. discriminate Hs.
  - destruct c as [|p|p]; try reflexivity. do 6 (destruct p as [p|p|]; try reflexivity). lia.
Qed.

(* ---------------- gates ---------------- *)
Theorem gates_before_write cfg_ctype max_size dir ctype size name contents now path written :
  save_ksr cfg_ctype max_size dir ctype size name contents now = Written path written ->
  ctype = Some cfg_ctype /\ (exists n, size = Some n /\ n <= max_size) /\
  written = contents /\ path = dir ++ [47] ++ stored_name name now.
Proof.
  unfold save_ksr. destruct ctype as [c|]; cbn [negb]; [|discriminate].
  destruct (text_eqb c cfg_ctype) eqn:E; cbn [negb]; [|discriminate]. apply text_eqb_spec in E. subst c.
  destruct size as [n|]; [|discriminate]. destruct (n >? max_size) eqn:G; [discriminate|].
  intros H. injection H as <- <-. split; [reflexivity|]. split; [exists n; split; [reflexivity|lia]|].
  split; [reflexivity|apply stored_path_in_upload_dir].
Qed.

Theorem gate_rejections cfg_ctype max_size dir ctype size name contents now :
  (ctype <> Some cfg_ctype -> save_ksr cfg_ctype max_size dir ctype size name contents now = Rejected 400) /\
  (ctype = Some cfg_ctype -> size = None -> save_ksr cfg_ctype max_size dir ctype size name contents now = Rejected 400) /\
  (forall n, ctype = Some cfg_ctype -> size = Some n -> n > max_size -> save_ksr cfg_ctype max_size dir ctype size name contents now = Rejected 413).
Proof.
  unfold save_ksr. split; [|split].
  - intros H. destruct ctype as [c|]; [|reflexivity]. destruct (text_eqb c cfg_ctype) eqn:E; [|reflexivity].
    apply text_eqb_spec in E. subst c. contradiction.
  - intros -> ->. rewrite text_eqb_refl. reflexivity.
  - intros n -> -> H. rewrite text_eqb_refl. cbn [negb]. assert (n >? max_size = true) as -> by lia. reflexivity.
Qed.

(* ---------------- whitelist ---------------- *)
Theorem whitelist_passes_only_listed fingerprint parses whitelist cert :
  dispatch fingerprint parses whitelist cert = OK true ->
  exists der, cert = Some der /\ parses der = true /\ In (fingerprint der) whitelist.
Proof.
  unfold dispatch, request_digest. destruct cert as [der|]; [|discriminate]. destruct (parses der) eqn:P; [|discriminate].
  cbn [bind]. destruct (existsb (text_eqb (fingerprint der)) whitelist) eqn:E; [|discriminate]. intros _.
  exists der. split; [reflexivity|]. split; [exact P|]. apply existsb_exists in E as (x & Hx & Ex). apply text_eqb_spec in Ex. subst x. exact Hx.
Qed.

Theorem whitelist_refuses_unlisted fingerprint parses whitelist der :
  parses der = true -> ~ In (fingerprint der) whitelist -> dispatch fingerprint parses whitelist (Some der) = Raise HTTP403.
Proof.
  intros P H. unfold dispatch, request_digest. rewrite P. cbn [bind].
  destruct (existsb (text_eqb (fingerprint der)) whitelist) eqn:E; [|reflexivity].
  apply existsb_exists in E as (x & Hx & Ex). apply text_eqb_spec in Ex. subst x. contradiction.
Qed.

(* the "no digest" pass-through of dispatch is never reached: a request without client certificate ends in an exception *)
Theorem no_certificate_no_pass fingerprint parses whitelist : exists c, dispatch fingerprint parses whitelist None = Raise c.
Proof. exists TypeError. reflexivity. Qed.

(* ---------------- verdict ---------------- *)
Section VerdictProofs.
  Variable verify : Key -> Sig -> list Z -> bool.

  Theorem verdict_ok_iff now p prev parsed :
    validate_ksr verify now p prev parsed = OK true <->
    exists ksr, parsed = OK ksr /\ validate_request verify now p ksr = OK tt /\
      (prev = None \/ exists skr, prev = Some (OK skr) /\ check_skr_and_ksr p ksr skr None = OK tt).
  Proof.
    unfold validate_ksr, judge. split.
    - intros H. destruct prev as [[skr|c]|]; cbn [bind] in H.
      + destruct parsed as [ksr|c]; cbn [bind] in H.
        * unfold seq in H. destruct (validate_request verify now p ksr) as [[]|c] eqn:V; cbn [bind] in H.
          -- destruct (check_skr_and_ksr p ksr skr None) as [[]|c] eqn:C.
             ++ exists ksr. split; [reflexivity|]. split; [exact V|]. right. exists skr. auto.
             ++ destruct (is_policy_violation c); discriminate H.
          -- destruct (is_policy_violation c); discriminate H.
        * destruct (is_policy_violation c); discriminate H.
      + destruct (is_policy_violation c); discriminate H.
      + destruct parsed as [ksr|c]; cbn [bind] in H.
        * unfold seq in H. destruct (validate_request verify now p ksr) as [[]|c] eqn:V; cbn [bind] in H.
          -- exists ksr. auto.
          -- destruct (is_policy_violation c); discriminate H.
        * destruct (is_policy_violation c); discriminate H.
    - intros (ksr & -> & V & [-> | (skr & -> & C)]); cbn [bind]; unfold seq; rewrite V; cbn [bind]; [reflexivity|rewrite C; reflexivity].
  Qed.

  Theorem verdict_error_iff now p prev parsed :
    validate_ksr verify now p prev parsed = OK false <-> exists c, judge verify now p prev parsed = Raise c /\ is_policy_violation c = true.
  Proof.
    unfold validate_ksr. destruct (judge verify now p prev parsed) as [[]|c].
    - split; [discriminate|intros (c & H & _); discriminate H].
    - destruct (is_policy_violation c) eqn:E.
      + split; [intros _; exists c; auto|reflexivity].
      + split; [discriminate|]. intros (c' & H & E'). injection H as <-. congruence.
  Qed.
End VerdictProofs.
