From KV Require Import Base.Prelude Base.Bytes Model.Data Model.Words Spec.PgpWords.

Definition T := standard_words.
Definition bytes256 : list Z := map Z.of_nat (List.seq 0 256).

(* exhaustive facts about the 256 x 2 table, by computation *)
Lemma table_length : length T = 256%nat.
Proof. vm_compute. reflexivity. Qed.

Lemma even_index_all : forallb (fun b => match index_of (fst (nth (Z.to_nat b) T ([], []))) (map fst T) 0 with Some i => i =? b | None => false end) bytes256 = true.
Proof. vm_compute. reflexivity. Qed.
Lemma odd_index_all : forallb (fun b => match index_of (snd (nth (Z.to_nat b) T ([], []))) (map snd T) 0 with Some i => i =? b | None => false end) bytes256 = true.
Proof. vm_compute. reflexivity. Qed.
Lemma columns_disjoint : forallb (fun row => match index_of (fst row) (map snd T) 0 with None => true | Some _ => false end) T = true.
Proof. vm_compute. reflexivity. Qed.

Lemma in_bytes256 b : 0 <= b < 256 -> In b bytes256.
Proof.
  intros Hb. unfold bytes256. apply in_map_iff. exists (Z.to_nat b). split; [lia|]. apply in_seq. lia.
Qed.

Lemma even_index b : 0 <= b < 256 -> index_of (fst (nth (Z.to_nat b) T ([], []))) (map fst T) 0 = Some b.
Proof.
  intros Hb. pose proof even_index_all as H. rewrite forallb_forall in H. specialize (H b (in_bytes256 b Hb)).
  destruct (index_of _ _ 0) as [i|]; [f_equal; lia|discriminate].
Qed.
Lemma odd_index b : 0 <= b < 256 -> index_of (snd (nth (Z.to_nat b) T ([], []))) (map snd T) 0 = Some b.
Proof.
  intros Hb. pose proof odd_index_all as H. rewrite forallb_forall in H. specialize (H b (in_bytes256 b Hb)).
  destruct (index_of _ _ 0) as [i|]; [f_equal; lia|discriminate].
Qed.

(* C17: every rendering decodes to the digest it was made from - for byte strings of any length *)
Theorem decode_encode data : bytes data -> forall odd, pgp_decode T odd (pgp_words T odd data) = Some data.
Proof.
  induction 1 as [|b t Hb _ IH]; intros odd; cbn [pgp_words pgp_decode]; [reflexivity|].
  rewrite IH. destruct odd; cbv beta iota zeta.
  - pose proof (odd_index b Hb) as E. unfold wtable, text in *. rewrite E. reflexivity.
  - pose proof (even_index b Hb) as E. unfold wtable, text in *. rewrite E. reflexivity.
Qed.

(* two different digests never render as the same words *)
Theorem pgp_words_injective a b : bytes a -> bytes b -> pgp_wordlist T a = pgp_wordlist T b -> a = b.
Proof.
  intros Ha Hb E. unfold pgp_wordlist in E.
  pose proof (decode_encode a Ha false) as Da. pose proof (decode_encode b Hb false) as Db. rewrite E in Da. congruence.
Qed.

(* one word per byte *)
Theorem pgp_words_length tbl data : forall odd, length (pgp_words tbl odd data) = length data.
Proof. induction data as [|b t IH]; intros odd; cbn; [reflexivity|]. rewrite IH. reflexivity. Qed.

(* the digest shown is the digest of the bytes that were parsed, whatever the file contains at later reads *)
Theorem shown_hash_is_parsed_bytes {A B} (digest : list Z -> A) (parse : list Z -> B) (read : nat -> list Z) :
  exists buf, load_and_show digest parse read = (digest buf, parse buf).
Proof. exists (read 0%nat). reflexivity. Qed.

Example hello_world_words :
  pgp_wordlist T [104;101;108;108;111] = [fst (nth 104 T ([],[])); snd (nth 101 T ([],[])); fst (nth 108 T ([],[])); snd (nth 108 T ([],[])); fst (nth 111 T ([],[]))].
Proof. reflexivity. Qed.
