(* C13: the reader terminates on every input - fuel is never exhausted - and recursion depth is bounded. *)
From KV Require Import Base.Prelude Base.Exn Base.Bytes Model.Data Model.Xml.

Section Total.
  Variable uw : Z -> bool.

  Lemma lstrip_len s : (length (lstrip s) <= length s)%nat.
  Proof. induction s as [|c t IH]; cbn; [lia|]. destruct (is_space c); cbn; lia. Qed.
  Lemma rstrip_len s : (length (rstrip s) <= length s)%nat.
  Proof. unfold rstrip. rewrite rev_length. pose proof (lstrip_len (rev s)). rewrite rev_length in H. exact H. Qed.
  Lemma strip_len s : (length (strip s) <= length s)%nat.
  Proof. unfold strip. pose proof (rstrip_len (lstrip s)). pose proof (lstrip_len s). lia. Qed.

  Lemma span_len p s a b : span p s = (a, b) -> (length a + length b = length s)%nat.
  Proof.
    revert a b; induction s as [|c t IH]; intros a b; cbn.
    - intros [= <- <-]; reflexivity.
    - destruct (p c).
      + destruct (span p t) as [a' b'] eqn:E. intros [= <- <-]. cbn. specialize (IH a' b' eq_refl). lia.
      + intros [= <- <-]. cbn. lia.
  Qed.
  Lemma take_line_len s : (length (take_line s) <= length s)%nat.
  Proof. induction s as [|c t IH]; cbn; [lia|]. destruct (c =? NL); cbn; lia. Qed.

  Lemma match_attr_shorter y n v r : match_attr uw y = Some (n, v, r) -> (length r < length y)%nat.
  Proof.
    unfold match_attr. destruct (span (is_word uw) y) as [name r1] eqn:Es.
    apply span_len in Es. destruct name as [|n0 nt]; [discriminate|].
    destruct r1 as [|e [|q [|v0 r2]]]; try discriminate.
    destruct (_ && _ && _); [|discriminate].
    destruct (find_quote_noline r2 0) as [k|]; [|discriminate]. intros [= _ _ <-].
    pose proof (take_line_len (lstrip (skipn (S k) r2))). pose proof (lstrip_len (skipn (S k) r2)).
    pose proof (skipn_length (S k) r2). cbn [length] in Es. cbn [skipn] in *. lia.
  Qed.

  Lemma parse_attrs_total fuel : forall attrs acc, (length attrs < fuel)%nat -> parse_attrs uw fuel attrs acc <> OutOfFuel.
  Proof.
    induction fuel as [|f IH]; intros attrs acc Hl; [lia|]. cbn [parse_attrs].
    destruct attrs as [|c t]; [discriminate|].
    destruct (match_attr uw (strip (c :: t))) as [[[n v] r]|] eqn:Em.
    - apply IH. apply match_attr_shorter in Em. pose proof (strip_len (c :: t)). lia.
    - destruct (strip (c :: t)); discriminate.
  Qed.

  Lemma try_ws_bounds x a : forall s k q0 g, try_ws x a k s = Some (q0, g) -> (q0 < g)%nat.
  Proof.
    induction s as [|s IH]; intros k q0 g; cbn [try_ws]; [discriminate|].
    destruct (skipn (1 + a + k) x) as [|c0 after]; [discriminate|].
    destruct (c0 =? NL).
    - apply IH.
    - destruct (find_gt_noline after (S (1 + a + k))) as [g'|] eqn:Eg.
      + intros [= <- <-].
        assert (G : forall s p r, find_gt_noline s p = Some r -> (p <= r)%nat).
        { clear. induction s as [|c t IH]; intros p r; cbn; [discriminate|].
          destruct (c =? GT); [intros [= <-]; lia|]. destruct (c =? NL); [discriminate|].
          intros H. apply IH in H. lia. }
        apply G in Eg. lia.
      + apply IH.
  Qed.

  Lemma parse_tag_end x n a e : parse_tag uw x = OK (n, a, e) ->
    (0 < e)%nat /\ match a with Some raw => (length raw <= length x)%nat | None => True end.
  Proof.
    unfold parse_tag. destruct x as [|c t]; [discriminate|].
    destruct (negb (c =? LT)); [discriminate|].
    destruct (span (is_word uw) t) as [name r1]. destruct name as [|n0 nt]; [discriminate|].
    destruct (span is_space r1) as [ws r2].
    set (r1match := match ws with [] => None | _ => _ end).
    destruct r1match as [[attrs e']|] eqn:Er.
    - intros [= <- <- <-]. subst r1match. destruct ws as [|w wt]; [discriminate|].
      destruct (try_ws (c :: t) (length (n0 :: nt)) 1 (length (w :: wt))) as [[q0 g]|] eqn:Et; [|discriminate].
      injection Er as <- <-. split; [lia|].
      rewrite firstn_length, skipn_length. lia.
    - destruct r1 as [|g r]; [discriminate|]. destruct (g =? GT); [|discriminate].
      intros [= <- <- <-]. split; [lia|exact I].
  Qed.

  Lemma find_end_pos x st name a b : find_end_of_element x st name = OK (a, b) -> (0 < b)%nat.
  Proof.
    unfold find_end_of_element. destruct (index_from _ x st); [|discriminate].
    intros [= _ <-]. rewrite !app_length. cbn. lia.
  Qed.

  Lemma slice_len x a b : (length (slice x a b) <= length x)%nat.
  Proof. unfold slice. rewrite firstn_length, skipn_length. lia. Qed.

  Lemma first_element_props fuel x n a v e :
    first_element uw fuel x = Done (n, a, v, e) -> (0 < e)%nat /\ (length v <= length x)%nat.
  Proof.
    unfold first_element. destruct (parse_tag uw x) as [[[name raw] tag_end]|c] eqn:Et; [|discriminate].
    apply parse_tag_end in Et as [He _].
    set (ao := match raw with None => Done None | Some r => _ end).
    destruct ao as [attrs| |]; try discriminate.
    destruct (text_eqb _ _).
    - intros [= <- <- <- <-]. cbn. lia.
    - destruct (find_end_of_element x tag_end name) as [[ve ee]|] eqn:Ef; [|discriminate].
      intros [= <- <- <- <-]. split; [eapply find_end_pos; exact Ef|].
      pose proof (strip_len (slice x tag_end ve)). pose proof (slice_len x tag_end ve). lia.
  Qed.

  Lemma first_element_fuel fuel x : (length x < fuel)%nat -> first_element uw fuel x <> OutOfFuel.
  Proof.
    intros Hf. unfold first_element. destruct (parse_tag uw x) as [[[name raw] tag_end]|c] eqn:Et; [|discriminate].
    apply parse_tag_end in Et as [_ Hraw].
    destruct raw as [raw|].
    - pose proof (parse_attrs_total fuel raw [] ltac:(lia)) as Hp.
      destruct (parse_attrs uw fuel raw []) as [d| |]; try discriminate; [|congruence].
      destruct (text_eqb _ _); [discriminate|]. destruct (find_end_of_element x tag_end name) as [[? ?]|]; discriminate.
    - destruct (text_eqb _ _); [discriminate|]. destruct (find_end_of_element x tag_end name) as [[? ?]|]; discriminate.
  Qed.

  (* the while loop of _parse_recursively makes progress; the recursion is bounded by [depth] *)
  Lemma parse_rec_total depth : forall fuel xml acc, (length xml < fuel)%nat -> parse_rec uw depth fuel xml acc <> OutOfFuel.
  Proof.
    induction depth as [|d IHd].
    - induction fuel as [|f IHf]; intros xml acc Hl; [lia|]. cbn.
      destruct xml as [|c0 t0]; [discriminate|].
      pose proof (strip_len (c0 :: t0)) as Hs. destruct (strip (c0 :: t0)) as [|c x'] eqn:Ex; [discriminate|].
      destruct (negb (c =? LT)); [discriminate|].
      pose proof (first_element_fuel (S (length (c :: x'))) (c :: x') ltac:(lia)) as Hfe.
      destruct (first_element uw (S (length (c :: x'))) (c :: x')) as [[[[n a] v] e]| |] eqn:Ef; try discriminate; [|congruence].
      apply first_element_props in Ef as [He Hv].
      destruct v as [|v0 vt].
      + apply IHf. pose proof (skipn_length e (c :: x')). cbn [length] in *. lia.
      + destruct (v0 =? LT); [discriminate|].
        apply IHf. pose proof (skipn_length e (c :: x')). cbn [length] in *. lia.
    - induction fuel as [|f IHf]; intros xml acc Hl; [lia|]. cbn.
      destruct xml as [|c0 t0]; [discriminate|].
      pose proof (strip_len (c0 :: t0)) as Hs. destruct (strip (c0 :: t0)) as [|c x'] eqn:Ex; [discriminate|].
      destruct (negb (c =? LT)); [discriminate|].
      pose proof (first_element_fuel (S (length (c :: x'))) (c :: x') ltac:(lia)) as Hfe.
      destruct (first_element uw (S (length (c :: x'))) (c :: x')) as [[[[n a] v] e]| |] eqn:Ef; try discriminate; [|congruence].
      apply first_element_props in Ef as [He Hv].
      destruct v as [|v0 vt].
      + apply IHf. pose proof (skipn_length e (c :: x')). cbn [length] in *. lia.
      + destruct (v0 =? LT).
        * pose proof (IHd (S (length (v0 :: vt))) (v0 :: vt) [] ltac:(lia)) as Hsub.
          destruct (parse_rec uw d (S (length (v0 :: vt))) (v0 :: vt) []) as [sub| |]; try discriminate; [|congruence].
          apply IHf. pose proof (skipn_length e (c :: x')). cbn [length] in *. lia.
        * apply IHf. pose proof (skipn_length e (c :: x')). cbn [length] in *. lia.
  Qed.

  Theorem parse_total xml : parse uw xml <> OutOfFuel.
  Proof. unfold parse. apply parse_rec_total. lia. Qed.

  Theorem parse_ksr_total xml : parse_ksr uw xml <> OutOfFuel.
  Proof. unfold parse_ksr. destruct (index_from KSR_OPEN xml 0); [apply parse_total|discriminate]. Qed.

  Theorem parse_attrs_terminates attrs : parse_attrs uw (S (length attrs)) attrs [] <> OutOfFuel.
  Proof. apply parse_attrs_total. lia. Qed.
End Total.

(* nesting depth of a parsed value *)
Fixpoint depth_of (v : val) : nat :=
  match v with
  | VStr _ => O
  | VNode d => S ((fix mx (l : list (text * val)) : nat := match l with [] => O | (_, x) :: t => Nat.max (depth_of x) (mx t) end) d)
  | VAttrs _ x => depth_of x
  | VList l => (fix mx (l : list val) : nat := match l with [] => O | x :: t => Nat.max (depth_of x) (mx t) end) l
  end.

(* non-vacuity: a document the reader accepts, and the shape the unrepaired attribute loop hung on *)
Example parse_example :
  parse (fun _ => false) [60;75;32;105;61;34;49;34;62;60;97;62;120;60;47;97;62;60;47;75;62]
  = Done [([75], VAttrs [([105], [49])] (VNode [([97], VStr [120])]))].
Proof. vm_compute. reflexivity. Qed.
Example single_quote_attr_is_an_error :
  parse (fun _ => false) [60;75;32;105;61;39;49;39;62;120;60;47;75;62] = Fail ValueError.
Proof. vm_compute. reflexivity. Qed.

(* C11 (d): a document whose first element is opened but whose closing tag has not been written yet
   (a write cut short) never parses: the reader cannot finish an element without finding its end tag. *)
Section Truncation.
  Variable uw : Z -> bool.

  Theorem truncated_fails doc name raw tag_end :
    parse_tag uw (strip doc) = OK (name, raw, tag_end) ->
    text_eqb (slice (strip doc) (tag_end - 2) tag_end) [SLASH; GT] = false ->
    index_from ([LT; SLASH] ++ name ++ [GT]) (strip doc) tag_end = None ->
    forall d, parse uw doc <> Done d.
  Proof.
    intros Ht Hsc Hidx d. unfold parse.
    destruct doc as [|c0 t0].
    { cbn in Ht. discriminate. }
    cbn [parse_rec length]. destruct (strip (c0 :: t0)) as [|c x'] eqn:Ex.
    { cbn in Ht. discriminate. }
    assert (Hlt : negb (c =? LT) = false).
    { unfold parse_tag in Ht. destruct (negb (c =? LT)); [discriminate|reflexivity]. }
    rewrite Hlt. unfold first_element. rewrite Ht.
    destruct raw as [raw|].
    - destruct (parse_attrs uw (S (length (c :: x'))) raw []) as [a| |]; try discriminate.
      rewrite Hsc. unfold find_end_of_element. rewrite Hidx. discriminate.
    - rewrite Hsc. unfold find_end_of_element. rewrite Hidx. discriminate.
  Qed.

  Theorem truncated_ksr_fails doc i name raw tag_end :
    index_from KSR_OPEN doc 0 = Some i ->
    parse_tag uw (strip (skipn i doc)) = OK (name, raw, tag_end) ->
    text_eqb (slice (strip (skipn i doc)) (tag_end - 2) tag_end) [SLASH; GT] = false ->
    index_from ([LT; SLASH] ++ name ++ [GT]) (strip (skipn i doc)) tag_end = None ->
    forall d, parse_ksr uw doc <> Done d.
  Proof. intros Hi Ht Hsc Hidx d. unfold parse_ksr. rewrite Hi. eapply truncated_fails; eauto. Qed.
End Truncation.
