(* The reader model (Model.Xml) on documents in the plain form: it extracts exactly the tree. *)
From KV Require Import Base.Prelude Base.Exn Base.Bytes Model.Data Model.Xml.
From KV Require Import Model.XmlTree.

Ltac len := repeat (progress cbn [length] || rewrite app_length); lia.

Section P.
  Variable uw : Z -> bool.
  Notation is_word := (is_word uw).

  (* ---- characters ---- *)
  Lemma ascii_word_is_word c : ascii_word c = true -> is_word c = true.
  Proof. unfold ascii_word, Xml.is_word. intros H. assert (c <? 128 = true) as -> by lia. exact H. Qed.
  Lemma ascii_word_not_space c : ascii_word c = true -> is_space c = false.
  Proof. unfold ascii_word, is_space. lia. Qed.
  Lemma blank_is_space c : blank c = true -> is_space c = true.
  Proof. unfold blank, is_space. lia. Qed.
  Lemma blank_not_word c : blank c = true -> is_word c = false.
  Proof. unfold blank, Xml.is_word. intros H. assert (c <? 128 = true) as -> by lia. lia. Qed.
  Lemma gt_not_word : is_word GT = false. Proof. reflexivity. Qed.
  Lemma eq_not_word : is_word EQ = false. Proof. reflexivity. Qed.
  Lemma slash_not_word : is_word SLASH = false. Proof. reflexivity. Qed.

  (* ---- span ---- *)
  Lemma span_app p a c r : forallb p a = true -> p c = false -> span p (a ++ c :: r) = (a, c :: r).
  Proof.
    induction a as [|x a IH]; cbn [app span forallb]; intros Ha Hc.
    - rewrite Hc. reflexivity.
    - apply andb_true_iff in Ha as [Hx Ha]. rewrite Hx, (IH Ha Hc). reflexivity.
  Qed.
  Lemma span_cons p c t a b : p c = true -> span p t = (a, b) -> span p (c :: t) = (c :: a, b).
  Proof. intros Hc E. cbn [span]. rewrite Hc, E. reflexivity. Qed.
  Lemma span_all p a : forallb p a = true -> span p a = (a, []).
  Proof.
    induction a as [|x a IH]; cbn [span forallb]; intros Ha; [reflexivity|].
    apply andb_true_iff in Ha as [Hx Ha]. rewrite Hx, (IH Ha). reflexivity.
  Qed.

  (* ---- strip ---- *)
  Lemma lstrip_app ws s : all_space ws = true -> lstrip (ws ++ s) = lstrip s.
  Proof.
    induction ws as [|c ws IH]; cbn [app lstrip all_space forallb]; intros H; [reflexivity|].
    apply andb_true_iff in H as [Hc H]. rewrite Hc. exact (IH H).
  Qed.
  Lemma lstrip_edge s : edge_ok s = true -> lstrip s = s.
  Proof. destruct s as [|c s]; cbn; [reflexivity|]. intros H. apply negb_true_iff in H. rewrite H. reflexivity. Qed.
  Lemma all_space_rev ws : all_space ws = true -> all_space (rev ws) = true.
  Proof. unfold all_space. rewrite !forallb_forall. intros H x Hx. apply H. apply in_rev. exact Hx. Qed.
  Lemma strip_core ws1 core ws2 : all_space ws1 = true -> all_space ws2 = true -> edge_ok core = true -> edge_ok (rev core) = true ->
    strip (ws1 ++ core ++ ws2) = core.
  Proof.
    intros H1 H2 E1 E2. unfold strip, rstrip. rewrite lstrip_app by exact H1.
    destruct core as [|c core'] eqn:Ec.
    - cbn [app]. assert (Hl : lstrip ws2 = []).
      { clear -H2. induction ws2 as [|x w IH]; cbn [lstrip all_space forallb] in *; [reflexivity|]. apply andb_true_iff in H2 as [Hx H2]. rewrite Hx. exact (IH H2). }
      rewrite Hl. reflexivity.
    - rewrite <- Ec in *. assert (Hl : lstrip (core ++ ws2) = core ++ ws2).
      { apply lstrip_edge. rewrite Ec. cbn. rewrite Ec in E1. exact E1. }
      rewrite Hl, rev_app_distr, lstrip_app by (apply all_space_rev; exact H2).
      rewrite (lstrip_edge _ E2). apply rev_involutive.
  Qed.

  Lemma strip_core0 ws1 core : all_space ws1 = true -> edge_ok core = true -> edge_ok (rev core) = true -> strip (ws1 ++ core) = core.
  Proof. intros H1 E1 E2. pose proof (strip_core ws1 core [] H1 eq_refl E1 E2) as H. rewrite app_nil_r in H. exact H. Qed.

  (* ---- substring search ---- *)
  Lemma starts_with_nolt needle c r : c <> LT -> starts_with (LT :: needle) (c :: r) = false.
  Proof. intros H. cbn [starts_with]. destruct (LT =? c) eqn:E; [apply Z.eqb_eq in E; congruence|reflexivity]. Qed.

  Lemma index_skip_nolt needle s : no_lt s = true -> forall rest pos,
    index_aux (LT :: needle) (s ++ rest) pos = index_aux (LT :: needle) rest (pos + length s)%nat.
  Proof.
    induction s as [|c s IH]; intros H rest pos; cbn [app length]; [f_equal; lia|].
    cbn [no_lt forallb] in H. apply andb_true_iff in H as [Hc H]. apply negb_true_iff, Z.eqb_neq in Hc.
    cbn [index_aux]. rewrite (starts_with_nolt needle c (s ++ rest) Hc).
    rewrite (IH H). f_equal. lia.
  Qed.

  Lemma index_ge needle : forall s pos i, index_aux needle s pos = Some i -> (pos <= i)%nat.
  Proof.
    induction s as [|c s IH]; intros pos i; cbn [index_aux].
    - destruct (starts_with needle []); [intros [= <-]; lia|discriminate].
    - destruct (starts_with needle (c :: s)); [intros [= <-]; lia|]. intros H. apply IH in H. lia.
  Qed.

  Lemma index_here needle s pos : starts_with needle s = true -> index_aux needle s pos = Some pos.
  Proof. intros H. destruct s; cbn [index_aux]; rewrite H; reflexivity. Qed.

  Lemma starts_with_refl needle r : starts_with needle (needle ++ r) = true.
  Proof. induction needle as [|c n IH]; cbn [starts_with app]; [reflexivity|]. rewrite Z.eqb_refl, IH. reflexivity. Qed.

  (* a tag body after its '<': skipped when the tag itself is not a hit *)
  Lemma index_skip_tag needle body rest pos : no_lt body = true -> starts_with (LT :: needle) (LT :: body ++ rest) = false ->
    index_aux (LT :: needle) (LT :: body ++ rest) pos = index_aux (LT :: needle) rest (pos + S (length body))%nat.
  Proof.
    intros Hb Hs. cbn [index_aux]. rewrite Hs. rewrite (index_skip_nolt needle body Hb). f_equal. lia.
  Qed.

  Lemma index_skip_tag2 needle body rest pos : no_lt body = true -> starts_with (LT :: needle) ((LT :: body) ++ rest) = false ->
    index_aux (LT :: needle) ((LT :: body) ++ rest) pos = index_aux (LT :: needle) rest (pos + S (length body))%nat.
  Proof. cbn [app]. apply index_skip_tag. Qed.

  (* names are words, what follows a name in a tag is not *)
  Lemma word_prefix k : forall m d e r, forallb ascii_word k = true -> forallb ascii_word m = true -> ascii_word d = false -> ascii_word e = false ->
    starts_with (k ++ [d]) (m ++ e :: r) = true -> k = m.
  Proof.
    induction k as [|k0 k IH]; intros m d e r Hk Hm Hd He; cbn [app starts_with].
    - destruct m as [|m0 m]; [reflexivity|]. cbn [app]. cbn [forallb] in Hm. apply andb_true_iff in Hm as [Hm0 _].
      destruct (d =? m0) eqn:E; [apply Z.eqb_eq in E; subst; congruence|discriminate].
    - cbn [forallb] in Hk. apply andb_true_iff in Hk as [Hk0 Hk]. destruct m as [|m0 m]; cbn [app].
      + destruct (k0 =? e) eqn:E; [apply Z.eqb_eq in E; subst; congruence|discriminate].
      + cbn [forallb] in Hm. apply andb_true_iff in Hm as [Hm0 Hm]. destruct (k0 =? m0) eqn:E; [|discriminate]. apply Z.eqb_eq in E. subst.
        cbn [andb]. intros H. f_equal. exact (IH m d e r Hk Hm Hd He H).
  Qed.

  (* ---- induction over trees ---- *)
  Lemma tree_ind' (P : tree -> Prop) :
    (forall n a tl lp c rp aft, P (Leaf n a tl lp c rp aft)) -> (forall n a tl aft, P (Empty n a tl aft)) ->
    (forall n a tl pre cs aft, Forall P cs -> P (Node n a tl pre cs aft)) -> forall t, P t.
  Proof.
    intros HL HE HN. fix IH 1. intros [n a tl lp c rp aft|n a tl aft|n a tl pre cs aft]; [apply HL|apply HE|apply HN].
    induction cs as [|c cs IHcs]; constructor; [apply IH|exact IHcs].
  Qed.

  (* ---- no '<' inside names, attributes, blanks ---- *)
  Lemma ascii_word_nolt n : forallb ascii_word n = true -> no_lt n = true.
  Proof.
    unfold no_lt. rewrite !forallb_forall. intros H x Hx. specialize (H x Hx). unfold ascii_word, LT in *. lia.
  Qed.
  Lemma no_lt_app a b : no_lt (a ++ b) = no_lt a && no_lt b.
  Proof. unfold no_lt. apply forallb_app. Qed.
  Lemma all_space_nolt s : all_space s = true -> no_lt s = true.
  Proof. unfold all_space, no_lt. rewrite !forallb_forall. intros H x Hx. specialize (H x Hx). unfold is_space, LT in *. lia. Qed.
  Lemma name_ok_word n : name_ok n = true -> forallb ascii_word n = true /\ n <> [].
  Proof. unfold name_ok. destruct n; cbn [negb andb]; [discriminate|]. intros H. split; [exact H|discriminate]. Qed.

  Lemma attr_nolt a : attr_ok a = true -> no_lt (ser_attr a) = true.
  Proof.
    destruct a as [[sep k] v]. unfold attr_ok, ser_attr. intros H.
    apply andb_true_iff in H as [H Hv]. apply andb_true_iff in H as [H Hv0]. apply andb_true_iff in H as [Hs Hk].
    unfold blanks_ok in Hs. apply andb_true_iff in Hs as [_ Hs]. apply name_ok_word in Hk as [Hk _].
    rewrite !no_lt_app. rewrite (ascii_word_nolt k Hk). cbn [no_lt forallb]. 
    assert (no_lt sep = true) as ->.
    { unfold no_lt. rewrite forallb_forall in *. intros x Hx. specialize (Hs x Hx). unfold blank, LT in *. lia. }
    assert (no_lt v = true) as ->.
    { unfold no_lt. rewrite forallb_forall in *. intros x Hx. specialize (Hv x Hx). unfold value_char in Hv. lia. }
    reflexivity.
  Qed.
  Lemma attrs_nolt l : forallb attr_ok l = true -> no_lt (ser_attrs l) = true.
  Proof.
    induction l as [|a l IH]; cbn [ser_attrs flat_map forallb]; [reflexivity|]. intros H. apply andb_true_iff in H as [Ha H].
    rewrite no_lt_app, (attr_nolt a Ha). exact (IH H).
  Qed.

  (* ---- what follows the name inside a tag is not a word character ---- *)
  Lemma not_word_gt : ascii_word GT = false. Proof. reflexivity. Qed.
  Lemma not_word_slash : ascii_word SLASH = false. Proof. reflexivity. Qed.
  Lemma not_word_32 : ascii_word 32 = false. Proof. reflexivity. Qed.
  Lemma blank_not_ascii_word c : blank c = true -> ascii_word c = false.
  Proof. unfold blank, ascii_word. lia. Qed.

  Lemma tail_ok_parts a tl : tail_ok a tl = true -> forallb blank tl = true /\ (a = [] -> tl = []).
  Proof.
    unfold tail_ok. intros H. apply andb_true_iff in H as [H1 H2]. split; [exact H1|]. intros ->. cbn in H2. destruct tl; [reflexivity|discriminate].
  Qed.
  Lemma blanks_nolt tl : forallb blank tl = true -> no_lt tl = true.
  Proof. unfold no_lt. rewrite !forallb_forall. intros H x Hx. specialize (H x Hx). unfold blank, LT in *. lia. Qed.

  Lemma after_name a tl closing c0 : forallb attr_ok a = true -> tail_ok a tl = true -> ascii_word c0 = false ->
    exists e r, (ser_attrs a ++ tl) ++ c0 :: closing = e :: r /\ ascii_word e = false.
  Proof.
    intros Ha Ht Hc. destruct (tail_ok_parts a tl Ht) as [Hb Hnil]. destruct a as [|[[sep k] v] a]; cbn [ser_attrs flat_map app].
    - rewrite (Hnil eq_refl). exists c0, closing. split; [reflexivity|exact Hc].
    - cbn [forallb] in Ha. apply andb_true_iff in Ha as [Ha _]. unfold attr_ok in Ha.
      apply andb_true_iff in Ha as [Ha _]. apply andb_true_iff in Ha as [Ha _]. apply andb_true_iff in Ha as [Hs _].
      unfold blanks_ok in Hs. destruct sep as [|s0 sep]; [discriminate|]. cbn [negb andb forallb] in Hs. apply andb_true_iff in Hs as [Hs0 _].
      unfold ser_attr. cbn [app]. eexists s0, _. split; [reflexivity|]. apply blank_not_ascii_word. exact Hs0.
  Qed.

  (* ---- needles: the three strings _find_end_of_element searches for, for an element named k ---- *)
  Record misses (nd : text) (k : text) : Prop := {
    ms_lt : exists nd', nd = LT :: nd';
    ms_close : forall m r, name_ok m = true -> m <> k -> starts_with nd (close_tag m ++ r) = false;
    ms_open : forall m e r, name_ok m = true -> m <> k -> ascii_word e = false -> starts_with nd (LT :: m ++ e :: r) = false }.

  Lemma starts_with_false_of (P : Prop) nd s : (starts_with nd s = true -> P) -> ~ P -> starts_with nd s = false.
  Proof. intros H N. destruct (starts_with nd s); [exfalso; auto|reflexivity]. Qed.

  Lemma misses_close k : name_ok k = true -> misses (close_tag k) k.
  Proof.
    intros Hk. apply name_ok_word in Hk as [Hk Hk0]. split.
    - eexists. reflexivity.
    - intros m r Hm Hne. apply name_ok_word in Hm as [Hm _]. unfold close_tag. cbn [app starts_with]. rewrite !Z.eqb_refl. cbn [andb].
      apply (starts_with_false_of (k = m)); [|congruence].
      change (m ++ [GT] ++ r) with (m ++ GT :: r) || idtac. rewrite <- app_assoc. cbn [app].
      apply word_prefix; auto using not_word_gt.
    - intros m e r Hm _ _. apply name_ok_word in Hm as [Hm Hm0]. unfold close_tag. destruct m as [|m0 m]; [congruence|].
      cbn [app starts_with forallb] in *. apply andb_true_iff in Hm as [Hm1 _]. rewrite Z.eqb_refl. cbn [andb].
      assert (SLASH =? m0 = false) as ->; [|reflexivity]. unfold ascii_word, SLASH in *. lia.
  Qed.

  Lemma misses_open k d : name_ok k = true -> ascii_word d = false -> misses (LT :: k ++ [d]) k.
  Proof.
    intros Hk Hd. apply name_ok_word in Hk as [Hk Hk0]. split.
    - eexists. reflexivity.
    - intros m r _ _. unfold close_tag. destruct k as [|k0 k]; [congruence|]. cbn [app starts_with forallb] in *.
      apply andb_true_iff in Hk as [Hk1 _]. rewrite Z.eqb_refl. cbn [andb].
      assert (k0 =? SLASH = false) as ->; [|reflexivity]. unfold ascii_word, SLASH in *. lia.
    - intros m e r Hm Hne He. apply name_ok_word in Hm as [Hm _]. cbn [starts_with]. rewrite Z.eqb_refl. cbn [andb].
      apply (starts_with_false_of (k = m)); [|congruence]. apply word_prefix; auto.
  Qed.

  (* ---- skipping whole tags and elements while searching ---- *)
  Lemma skip_named nd k n tail rest pos : misses nd k -> name_ok n = true -> n <> k -> no_lt tail = true ->
    (exists e r, tail ++ rest = e :: r /\ ascii_word e = false) ->
    index_aux nd ((LT :: n ++ tail) ++ rest) pos = index_aux nd rest (pos + length (LT :: n ++ tail))%nat.
  Proof.
    intros [[nd' ->] _ Mo] Hn Hne Ht (e & r & E & He). cbn [app length].
    rewrite index_skip_tag.
    - reflexivity.
    - pose proof (name_ok_word n Hn) as [Hw _]. rewrite no_lt_app, (ascii_word_nolt n Hw). exact Ht.
    - rewrite <- app_assoc, E. apply Mo; assumption.
  Qed.

  Lemma skip_open nd k n a tl rest pos : misses nd k -> name_ok n = true -> n <> k -> forallb attr_ok a = true -> tail_ok a tl = true ->
    index_aux nd (open_tag n a tl ++ rest) pos = index_aux nd rest (pos + length (open_tag n a tl))%nat.
  Proof.
    intros M Hn Hne Ha Ht. unfold open_tag. change ([LT] ++ n ++ (ser_attrs a ++ tl) ++ [GT]) with (LT :: n ++ ((ser_attrs a ++ tl) ++ [GT])).
    apply (skip_named nd k); auto.
    - destruct (tail_ok_parts a tl Ht) as [Hb _]. rewrite !no_lt_app, (attrs_nolt a Ha), (blanks_nolt tl Hb). reflexivity.
    - destruct (after_name a tl rest GT Ha Ht not_word_gt) as (e & r & E & He). exists e, r. split; [|exact He].
      rewrite <- app_assoc. exact E.
  Qed.

  Lemma skip_empty nd k n a tl rest pos : misses nd k -> name_ok n = true -> n <> k -> forallb attr_ok a = true -> tail_ok a tl = true ->
    index_aux nd (empty_tag n a tl ++ rest) pos = index_aux nd rest (pos + length (empty_tag n a tl))%nat.
  Proof.
    intros M Hn Hne Ha Ht. unfold empty_tag. change ([LT] ++ n ++ (ser_attrs a ++ tl) ++ [SLASH; GT]) with (LT :: n ++ ((ser_attrs a ++ tl) ++ [SLASH; GT])).
    apply (skip_named nd k); auto.
    - destruct (tail_ok_parts a tl Ht) as [Hb _]. rewrite !no_lt_app, (attrs_nolt a Ha), (blanks_nolt tl Hb). reflexivity.
    - destruct (after_name a tl (GT :: rest) SLASH Ha Ht not_word_slash) as (e & r & E & He). exists e, r. split; [|exact He].
      rewrite <- app_assoc. exact E.
  Qed.

  Lemma skip_close nd k n rest pos : misses nd k -> name_ok n = true -> n <> k ->
    index_aux nd (close_tag n ++ rest) pos = index_aux nd rest (pos + length (close_tag n))%nat.
  Proof.
    intros [[nd' ->] Mc _] Hn Hne. pose proof (Mc n rest Hn Hne) as Hs. unfold close_tag in *.
    change ([LT; SLASH] ++ n ++ [GT]) with (LT :: (SLASH :: n ++ [GT])) in *. cbn [app length] in *.
    change (SLASH :: (n ++ [GT]) ++ rest) with ((SLASH :: n ++ [GT]) ++ rest) in *.
    rewrite index_skip_tag.
    - reflexivity.
    - pose proof (name_ok_word n Hn) as [Hw _]. cbn [no_lt forallb]. fold (no_lt (n ++ [GT])). rewrite no_lt_app, (ascii_word_nolt n Hw). reflexivity.
    - exact Hs.
  Qed.

  Definition kids (cs : list tree) : text := flat_map (fun c => elem c ++ tafter c) cs.

  Lemma wf_node n a tl pre cs aft : wf (Node n a tl pre cs aft) = true ->
    name_ok n = true /\ attrs_ok a = true /\ tail_ok a tl = true /\ all_space pre = true /\ all_space aft = true /\ cs <> [] /\ forallb wf cs = true /\
    ~ In n (flat_map names cs).
  Proof.
    cbn [wf]. intros H.
    apply andb_true_iff in H as [H H7]. apply andb_true_iff in H as [H H6]. apply andb_true_iff in H as [H H5].
    apply andb_true_iff in H as [H H4]. apply andb_true_iff in H as [H H3]. apply andb_true_iff in H as [H H2b]. apply andb_true_iff in H as [H1 H2].
    repeat split; auto.
    - intros ->. discriminate H5.
    - intros Hin. apply negb_true_iff in H7.
      assert (existsb (text_eqb n) (flat_map names cs) = true); [|congruence].
      apply existsb_exists. exists n. split; [exact Hin|]. apply text_eqb_refl.
  Qed.

  Lemma skip_kids nd cs : Forall (fun c => forall rest pos, index_aux nd (elem c ++ rest) pos = index_aux nd rest (pos + length (elem c))%nat) cs ->
    (exists nd', nd = LT :: nd') -> forallb (fun c => all_space (tafter c)) cs = true ->
    forall rest pos, index_aux nd (kids cs ++ rest) pos = index_aux nd rest (pos + length (kids cs))%nat.
  Proof.
    intros HF [nd' ->] Hsp. induction HF as [|c cs Hc _ IH]; intros rest pos; cbn [kids flat_map app length]; [f_equal; lia|].
    cbn [forallb] in Hsp. apply andb_true_iff in Hsp as [Hs Hsp]. fold (kids cs).
    rewrite <- !app_assoc. rewrite Hc. rewrite (index_skip_nolt nd' (tafter c) (all_space_nolt _ Hs)). rewrite (IH Hsp).
    f_equal. rewrite !app_length. lia.
  Qed.

  Lemma wf_after t : wf t = true -> all_space (tafter t) = true.
  Proof.
    destruct t as [n a tl lp c rp aft|n a tl aft|n a tl pre cs aft]; cbn [wf tafter]; intros H.
    - apply andb_true_iff in H as [_ H]. exact H.
    - apply andb_true_iff in H as [_ H]. exact H.
    - apply wf_node in H. tauto.
  Qed.

  Lemma skip_elem nd k : misses nd k -> forall t, wf t = true -> ~ In k (names t) ->
    forall rest pos, index_aux nd (elem t ++ rest) pos = index_aux nd rest (pos + length (elem t))%nat.
  Proof.
    intros M. induction t as [n a tl lp c rp aft|n a tl aft|n a tl pre cs aft IH] using tree_ind'; intros Hwf Hk rest pos.
    - cbn [wf] in Hwf. apply andb_true_iff in Hwf as [Hwf _]. apply andb_true_iff in Hwf as [Hwf Hrp]. apply andb_true_iff in Hwf as [Hwf Hlp].
      apply andb_true_iff in Hwf as [Hwf Hc]. apply andb_true_iff in Hwf as [Hwf Ht]. apply andb_true_iff in Hwf as [Hn Ha].
      unfold attrs_ok in Ha. apply andb_true_iff in Ha as [Ha _]. unfold content_ok in Hc. apply andb_true_iff in Hc as [Hc _]. apply andb_true_iff in Hc as [Hc _].
      assert (Hne : n <> k) by (intros ->; apply Hk; left; reflexivity).
      destruct M as [[nd' E] Mc Mo]. pose proof (Build_misses nd k (ex_intro _ nd' E) Mc Mo) as M.
      assert (Hmid : no_lt (lp ++ c ++ rp) = true) by (rewrite !no_lt_app, Hc, (all_space_nolt _ Hlp), (all_space_nolt _ Hrp); reflexivity).
      cbn [elem]. rewrite <- !app_assoc. rewrite (skip_open nd k n a tl _ _ M Hn Hne Ha Ht). subst nd.
      replace (lp ++ c ++ rp ++ close_tag n ++ rest) with ((lp ++ c ++ rp) ++ close_tag n ++ rest) by (rewrite <- !app_assoc; reflexivity).
      rewrite (index_skip_nolt nd' _ Hmid). rewrite (skip_close _ k n _ _ M Hn Hne). f_equal. rewrite !app_length. lia.
    - cbn [wf] in Hwf. apply andb_true_iff in Hwf as [Hwf _]. apply andb_true_iff in Hwf as [Hwf _]. apply andb_true_iff in Hwf as [Hwf Ht]. apply andb_true_iff in Hwf as [Hn Ha].
      unfold attrs_ok in Ha. apply andb_true_iff in Ha as [Ha _].
      assert (Hne : n <> k) by (intros ->; apply Hk; left; reflexivity).
      cbn [elem]. apply (skip_empty nd k); assumption.
    - pose proof (wf_node _ _ _ _ _ _ Hwf) as (Hn & Ha & Ht & Hpre & _ & _ & Hcs & _).
      unfold attrs_ok in Ha. apply andb_true_iff in Ha as [Ha _].
      assert (Hne : n <> k) by (intros ->; apply Hk; left; reflexivity).
      assert (Hkc : ~ In k (flat_map names cs)) by (intros Hin; apply Hk; right; exact Hin).
      destruct M as [[nd' E] Mc Mo]. pose proof (Build_misses nd k (ex_intro _ nd' E) Mc Mo) as M.
      cbn [elem]. fold (kids cs). rewrite <- !app_assoc. rewrite (skip_open nd k n a tl _ _ M Hn Hne Ha Ht).
      assert (HF : Forall (fun c => forall rest pos, index_aux nd (elem c ++ rest) pos = index_aux nd rest (pos + length (elem c))%nat) cs).
      { rewrite Forall_forall in *. intros c Hc. apply IH; [exact Hc| |].
        - rewrite forallb_forall in Hcs. apply Hcs. exact Hc.
        - intros Hin. apply Hkc. apply in_flat_map. exists c. split; assumption. }
      assert (Hsp : forallb (fun c => all_space (tafter c)) cs = true).
      { rewrite forallb_forall in *. intros c Hc. apply wf_after. apply Hcs. exact Hc. }
      subst nd. rewrite (index_skip_nolt nd' pre (all_space_nolt _ Hpre)).
      rewrite (skip_kids _ cs HF (ex_intro _ nd' eq_refl) Hsp). rewrite (skip_close _ k n _ _ M Hn Hne).
      f_equal. rewrite !app_length. lia.
  Qed.

  (* ---- _parse_tag on the three forms of start tag ---- *)
  Lemma find_gt_app s : (forall c, In c s -> c <> GT /\ c <> NL) -> forall r pos, find_gt_noline (s ++ GT :: r) pos = Some (pos + length s)%nat.
  Proof.
    induction s as [|c s IH]; intros H r pos; cbn [app find_gt_noline length].
    - rewrite Z.eqb_refl. f_equal. lia.
    - destruct (H c (or_introl eq_refl)) as [H1 H2]. apply Z.eqb_neq in H1, H2. rewrite H1, H2.
      rewrite IH by (intros x Hx; apply H; right; exact Hx). f_equal. lia.
  Qed.

  Lemma skipn_name (n : text) (s0 : Z) (tl : text) : skipn (1 + length n + 1) (LT :: n ++ s0 :: tl) = tl.
  Proof.
    replace (1 + length n + 1)%nat with (S (length n + 1)) by lia. cbn [skipn].
    rewrite skipn_app. rewrite skipn_all2 by lia. replace (length n + 1 - length n)%nat with 1%nat by lia. reflexivity.
  Qed.

  Lemma parse_tag_bare n r : name_ok n = true -> parse_tag uw (LT :: n ++ GT :: r) = OK (n, None, (length n + 2)%nat).
  Proof.
    intros Hn. apply name_ok_word in Hn as [Hw Hn0]. unfold parse_tag. rewrite Z.eqb_refl. cbn [negb].
    rewrite (span_app is_word n GT r); [|rewrite forallb_forall in *; intros x Hx; apply ascii_word_is_word; auto|exact gt_not_word].
    destruct n as [|n0 n']; [congruence|]. cbn [span]. assert (is_space GT = false) as -> by reflexivity.
    rewrite Z.eqb_refl. reflexivity.
  Qed.

  Lemma parse_tag_attrs n s0 c0 U closing r :
    name_ok n = true -> blank s0 = true -> c0 <> NL -> (forall c, In c U -> c <> GT /\ c <> NL) -> c0 <> GT ->
    count_trailing_slash (rev (c0 :: U)) = O ->
    (closing = [] \/ closing = [SLASH]) ->
    parse_tag uw (LT :: n ++ s0 :: c0 :: U ++ closing ++ GT :: r) = OK (n, Some (c0 :: U), (length n + length U + length closing + 4)%nat).
  Proof.
    intros Hn Hs0 Hc0 HU Hc0g Hts Hcl. apply name_ok_word in Hn as [Hw Hn0]. unfold parse_tag. rewrite Z.eqb_refl. cbn [negb].
    rewrite (span_app is_word n s0 _); [|rewrite forallb_forall in *; intros x Hx; apply ascii_word_is_word; auto|apply blank_not_word; exact Hs0].
    destruct n as [|n0 n'] eqn:En; [congruence|]. cbv beta iota zeta. rewrite <- En in *. clear Hn0.
    destruct (span is_space (c0 :: U ++ closing ++ GT :: r)) as [w1 r2] eqn:Esp.
    rewrite (span_cons is_space s0 _ w1 r2 (blank_is_space _ Hs0) Esp).
    cbn [length try_ws]. rewrite skipn_name.
    assert (Hnl : c0 =? NL = false) by (apply Z.eqb_neq; exact Hc0). rewrite Hnl.
    assert (Hfg : find_gt_noline (U ++ closing ++ GT :: r) (S (1 + length n + 1)) = Some (S (1 + length n + 1) + length (U ++ closing))%nat).
    { rewrite app_assoc. apply find_gt_app. intros c Hc. apply in_app_or in Hc as [Hc|Hc]; [apply HU; exact Hc|].
      destruct Hcl as [->| ->]; [destruct Hc|]. destruct Hc as [<-|[]]. unfold SLASH, GT, NL. lia. }
    rewrite Hfg. cbn zeta.
    set (q0 := (1 + length n + 1)%nat). set (g := (S q0 + length (U ++ closing))%nat).
    assert (Hsk : skipn q0 (LT :: n ++ s0 :: c0 :: U ++ closing ++ GT :: r) = c0 :: U ++ closing ++ GT :: r) by (apply skipn_name).
    rewrite Hsk.
    assert (Hgq : (g - q0 = S (length (U ++ closing)))%nat) by (unfold g; lia). rewrite Hgq.
    assert (Hbt : firstn (S (length (U ++ closing))) (c0 :: U ++ closing ++ GT :: r) = c0 :: U ++ closing).
    { cbn [firstn]. f_equal. rewrite app_assoc. rewrite firstn_app, firstn_all. replace (length (U ++ closing) - length (U ++ closing))%nat with O by lia. cbn [firstn]. apply app_nil_r. }
    rewrite Hbt.
    assert (Htc : count_trailing_slash (rev (c0 :: U ++ closing)) = length closing).
    { destruct Hcl as [->| ->].
      - rewrite app_nil_r. exact Hts.
      - change (c0 :: U ++ [SLASH]) with ((c0 :: U) ++ [SLASH]). rewrite rev_app_distr. cbn [rev app count_trailing_slash]. rewrite Z.eqb_refl.
        cbn [rev] in Hts. rewrite Hts. reflexivity. }
    rewrite Htc.
    assert (Hp : Nat.max (q0 + 1) (g - length closing) = (q0 + S (length U))%nat).
    { unfold g. rewrite app_length. lia. }
    rewrite Hp. replace (q0 + S (length U) - q0)%nat with (S (length U)) by lia.
    assert (Hat : firstn (S (length U)) (c0 :: U ++ closing ++ GT :: r) = c0 :: U).
    { cbn [firstn]. f_equal. rewrite firstn_app, firstn_all. replace (length U - length U)%nat with O by lia. cbn [firstn]. apply app_nil_r. }
    rewrite Hat. f_equal. f_equal. unfold g, q0. rewrite app_length. lia.
  Qed.

  (* ---- _parse_attrs on the attribute text of a start tag ---- *)
  Definition attr_body (k v : text) : text := k ++ [EQ; QUOTE] ++ v ++ [QUOTE].
  Lemma ser_attrs_cons sep k v l : ser_attrs ((sep, k, v) :: l) = sep ++ attr_body k v ++ ser_attrs l.
  Proof. cbn [ser_attrs flat_map ser_attr]. unfold attr_body. rewrite <- !app_assoc. reflexivity. Qed.

  Lemma find_quote_app s : (forall c, In c s -> c <> QUOTE /\ c <> NL) -> forall r pos, find_quote_noline (s ++ QUOTE :: r) pos = Some (pos + length s)%nat.
  Proof.
    induction s as [|c s IH]; intros H r pos; cbn [app find_quote_noline length].
    - rewrite Z.eqb_refl. f_equal. lia.
    - destruct (H c (or_introl eq_refl)) as [H1 H2]. apply Z.eqb_neq in H1, H2. rewrite H1, H2.
      rewrite IH by (intros x Hx; apply H; right; exact Hx). f_equal. lia.
  Qed.

  Lemma take_line_id s : (forall c, In c s -> c <> NL) -> take_line s = s.
  Proof.
    induction s as [|c s IH]; intros H; cbn [take_line]; [reflexivity|].
    assert (c =? NL = false) as -> by (apply Z.eqb_neq; apply H; left; reflexivity). f_equal. apply IH. intros x Hx. apply H. right. exact Hx.
  Qed.

  Lemma value_char_spec c : value_char c = true -> c <> QUOTE /\ c <> NL /\ c <> GT /\ c <> LT.
  Proof. unfold value_char. intros H. repeat split; intros ->; cbn in H; discriminate. Qed.

  Lemma attr_ok_parts sep k v : attr_ok (sep, k, v) = true ->
    forallb blank sep = true /\ sep <> [] /\ name_ok k = true /\ v <> [] /\ forallb value_char v = true.
  Proof.
    unfold attr_ok. intros H. apply andb_true_iff in H as [H Hv]. apply andb_true_iff in H as [H Hv0]. apply andb_true_iff in H as [Hs Hk].
    unfold blanks_ok in Hs. apply andb_true_iff in Hs as [Hs0 Hs]. repeat split; auto.
    - intros ->. discriminate Hs0.
    - intros ->. discriminate Hv0.
  Qed.

  Lemma match_attr_body k v tl0 : name_ok k = true -> v <> [] -> forallb value_char v = true ->
    match_attr uw (attr_body k v ++ tl0) = Some (k, v, take_line (lstrip tl0)).
  Proof.
    intros Hk Hv0 Hv. apply name_ok_word in Hk as [Hw Hk0]. unfold match_attr, attr_body. rewrite <- !app_assoc. cbn [app].
    rewrite (span_app is_word k EQ _); [|rewrite forallb_forall in *; intros x Hx; apply ascii_word_is_word; auto|exact eq_not_word].
    destruct k as [|k0 k'] eqn:Ek; [congruence|]. rewrite <- Ek.
    destruct v as [|v0 v']; [congruence|]. cbn [app forallb] in *. apply andb_true_iff in Hv as [Hv0' Hv'].
    rewrite !Z.eqb_refl. destruct (value_char_spec _ Hv0') as (_ & Hnl & _). assert (v0 =? NL = false) as -> by (apply Z.eqb_neq; exact Hnl).
    cbn [andb negb]. rewrite find_quote_app.
    - cbn [Nat.add]. rewrite firstn_app, firstn_all. replace (length v' - length v')%nat with O by lia. cbn [firstn]. rewrite app_nil_r.
      replace (S (length v')) with (length (v' ++ [QUOTE])) by (rewrite app_length; cbn; lia).
      replace (v' ++ QUOTE :: tl0) with ((v' ++ [QUOTE]) ++ tl0) by (rewrite <- app_assoc; reflexivity).
      rewrite skipn_app, skipn_all. replace (length (v' ++ [QUOTE]) - length (v' ++ [QUOTE]))%nat with O by lia. reflexivity.
    - intros c Hc. rewrite forallb_forall in Hv'. destruct (value_char_spec _ (Hv' c Hc)) as (A & B & _). split; assumption.
  Qed.

  Lemma ser_attrs_chars l : forallb attr_ok l = true -> forall c, In c (ser_attrs l) -> c <> NL /\ c <> GT /\ c <> LT.
  Proof.
    induction l as [|[[sep k] v] l IH]; intros H c Hc; [destruct Hc|].
    cbn [forallb] in H. apply andb_true_iff in H as [Ha H]. rewrite ser_attrs_cons in Hc. unfold attr_body in Hc.
    destruct (attr_ok_parts _ _ _ Ha) as (Hs & _ & Hk & _ & Hv). apply name_ok_word in Hk as [Hk _].
    rewrite forallb_forall in Hs, Hk, Hv.
    apply in_app_or in Hc as [Hc|Hc]; [specialize (Hs c Hc); unfold blank, NL, GT, LT in *; lia|].
    apply in_app_or in Hc as [Hc|Hc]; [|exact (IH H c Hc)].
    apply in_app_or in Hc as [Hc|Hc]; [specialize (Hk c Hc); unfold ascii_word, NL, GT, LT in *; lia|].
    apply in_app_or in Hc as [Hc|Hc]; [destruct Hc as [<-|[<-|[]]]; unfold EQ, QUOTE, NL, GT, LT; lia|].
    apply in_app_or in Hc as [Hc|Hc]; [destruct (value_char_spec _ (Hv c Hc)) as (_ & A & B & C); auto|].
    destruct Hc as [<-|[]]. unfold QUOTE, NL, GT, LT; lia.
  Qed.

  Lemma ser_attrs_last l : l <> [] -> exists X, ser_attrs l = X ++ [QUOTE].
  Proof.
    intros Hl. destruct (@exists_last _ l Hl) as (l0 & a & ->). destruct a as [[sep k] v].
    unfold ser_attrs. rewrite flat_map_app. cbn [flat_map ser_attr]. rewrite app_nil_r.
    exists (flat_map ser_attr l0 ++ sep ++ k ++ [EQ; QUOTE] ++ v). rewrite <- !app_assoc. reflexivity.
  Qed.

  Lemma body_edges k v l : name_ok k = true -> edge_ok (attr_body k v ++ ser_attrs l) = true /\ edge_ok (rev (attr_body k v ++ ser_attrs l)) = true.
  Proof.
    intros Hk. apply name_ok_word in Hk as [Hw Hk0]. split.
    - destruct k as [|k0 k']; [congruence|]. cbn [attr_body app edge_ok forallb] in *. apply andb_true_iff in Hw as [Hw _].
      rewrite (ascii_word_not_space _ Hw). reflexivity.
    - assert (exists X, attr_body k v ++ ser_attrs l = X ++ [QUOTE]) as [X ->].
      { destruct l as [|a l'].
        - exists (k ++ [EQ; QUOTE] ++ v). unfold attr_body. cbn [ser_attrs flat_map]. rewrite app_nil_r, <- !app_assoc. reflexivity.
        - destruct (ser_attrs_last (a :: l')) as [X E]; [discriminate|]. rewrite E. exists (attr_body k v ++ X). rewrite app_assoc. reflexivity. }
      rewrite rev_app_distr. reflexivity.
  Qed.

  Definition set_all (l : list attr) (acc : list (text * text)) : list (text * text) :=
    fold_left (fun d a => attr_set (snd (fst a)) (snd a) d) l acc.

  Lemma blanks_all_space s : forallb blank s = true -> all_space s = true.
  Proof. unfold all_space. rewrite !forallb_forall. intros H x Hx. apply blank_is_space. auto. Qed.

  Lemma parse_attrs_unfold f attrs acc : attrs <> [] ->
    parse_attrs uw (S f) attrs acc =
    match match_attr uw (strip attrs) with
    | Some (name, value, rest) => parse_attrs uw f rest (attr_set name value acc)
    | None => match strip attrs with [] => Done acc | _ => Fail ValueError end
    end.
  Proof. destruct attrs; [congruence|reflexivity]. Qed.
  Lemma body_nonempty W k v tl0 : name_ok k = true -> W ++ attr_body k v ++ tl0 <> [].
  Proof.
    intros Hk E. apply name_ok_word in Hk as [_ Hk0]. apply app_eq_nil in E as [_ E]. apply app_eq_nil in E as [E _].
    unfold attr_body in E. apply app_eq_nil in E as [E _]. congruence.
  Qed.

  Lemma parse_attrs_loop l : forall W k v acc fuel, forallb blank W = true -> name_ok k = true -> v <> [] -> forallb value_char v = true ->
    forallb attr_ok l = true -> (length l < fuel)%nat ->
    parse_attrs uw (S fuel) (W ++ attr_body k v ++ ser_attrs l) acc = Done (set_all l (attr_set k v acc)).
  Proof.
    induction l as [|[[sep' k'] v'] l IH]; intros W k v acc fuel HW Hk Hv0 Hv Hl Hf.
    - rewrite parse_attrs_unfold by (apply body_nonempty; exact Hk).
      destruct (body_edges k v [] Hk) as [E1 E2].
      rewrite (strip_core0 W _ (blanks_all_space _ HW) E1 E2).
      rewrite (match_attr_body k v _ Hk Hv0 Hv). cbn [ser_attrs flat_map lstrip take_line].
      destruct fuel; [lia|]. reflexivity.
    - rewrite parse_attrs_unfold by (apply body_nonempty; exact Hk).
      destruct (body_edges k v ((sep', k', v') :: l) Hk) as [E1 E2].
      rewrite (strip_core0 W _ (blanks_all_space _ HW) E1 E2).
      rewrite (match_attr_body k v _ Hk Hv0 Hv).
      cbn [forallb] in Hl. apply andb_true_iff in Hl as [Ha Hl]. destruct (attr_ok_parts _ _ _ Ha) as (Hs & _ & Hk' & Hv0' & Hv').
      rewrite ser_attrs_cons. rewrite (lstrip_app sep' _ (blanks_all_space _ Hs)).
      destruct (body_edges k' v' l Hk') as [E1' _]. rewrite (lstrip_edge _ E1').
      rewrite take_line_id.
      + destruct fuel as [|fuel']; [cbn in Hf; lia|]. cbn [length] in Hf.
        change (attr_body k' v' ++ ser_attrs l) with ([] ++ attr_body k' v' ++ ser_attrs l).
        rewrite (IH [] k' v' (attr_set k v acc) fuel' eq_refl Hk' Hv0' Hv' Hl ltac:(lia)). reflexivity.
      + intros c Hc. assert (Hin : In c (ser_attrs ((sep', k', v') :: l))) by (rewrite ser_attrs_cons; apply in_or_app; right; exact Hc).
        assert (Hall : forallb attr_ok ((sep', k', v') :: l) = true) by (cbn [forallb]; rewrite Ha, Hl; reflexivity).
        destruct (ser_attrs_chars _ Hall c Hin) as (A & _). exact A.
  Qed.

  (* ---- _find_end_of_element on  <n ..> mid </n> R ---- *)
  Definition skippable (nd mid : text) : Prop := forall rest pos, index_aux nd (mid ++ rest) pos = index_aux nd rest (pos + length mid)%nat.

  Lemma open_needle_close k d m r : name_ok k = true -> starts_with (LT :: k ++ [d]) (close_tag m ++ r) = false.
  Proof.
    intros Hk. apply name_ok_word in Hk as [Hk Hk0]. unfold close_tag. destruct k as [|k0 k]; [congruence|]. cbn [app starts_with forallb] in *.
    apply andb_true_iff in Hk as [Hk1 _]. rewrite Z.eqb_refl. cbn [andb].
    assert (k0 =? SLASH = false) as ->; [|reflexivity]. unfold ascii_word, SLASH in *. lia.
  Qed.

  Lemma open_tag_body n a tb : open_tag n a tb = LT :: (n ++ (ser_attrs a ++ tb) ++ [GT]).
  Proof. reflexivity. Qed.
  Lemma open_tag_body_nolt n a tb : name_ok n = true -> forallb attr_ok a = true -> tail_ok a tb = true -> no_lt (n ++ (ser_attrs a ++ tb) ++ [GT]) = true.
  Proof. intros Hn Ha Ht. apply name_ok_word in Hn as [Hw _]. destruct (tail_ok_parts a tb Ht) as [Hb _]. rewrite !no_lt_app, (ascii_word_nolt n Hw), (attrs_nolt a Ha), (blanks_nolt tb Hb). reflexivity. Qed.
  Lemma close_tag_body n : close_tag n = LT :: (SLASH :: n ++ [GT]).
  Proof. reflexivity. Qed.
  Lemma close_tag_body_nolt n : name_ok n = true -> no_lt (SLASH :: n ++ [GT]) = true.
  Proof. intros Hn. apply name_ok_word in Hn as [Hw _]. cbn [no_lt forallb]. fold (no_lt (n ++ [GT])). rewrite no_lt_app, (ascii_word_nolt n Hw). reflexivity. Qed.

  Lemma index_from_0 nd x : index_from nd x 0 = index_aux nd x 0.
  Proof. unfold index_from. assert (Nat.ltb (length x) 0 = false) as -> by (apply Nat.ltb_ge; lia). reflexivity. Qed.

  (* the end tag is found right after the middle part *)
  Lemma find_close n a tb mid R : name_ok n = true -> skippable (close_tag n) mid ->
    index_from (close_tag n) (open_tag n a tb ++ mid ++ close_tag n ++ R) (length (open_tag n a tb)) = Some (length (open_tag n a tb) + length mid)%nat.
  Proof.
    intros Hn Hsk. unfold index_from.
    assert (Nat.ltb (length (open_tag n a tb ++ mid ++ close_tag n ++ R)) (length (open_tag n a tb)) = false) as ->.
    { apply Nat.ltb_ge. rewrite app_length. lia. }
    rewrite skipn_app, skipn_all. replace (length (open_tag n a tb) - length (open_tag n a tb))%nat with O by lia. cbn [skipn app].
    rewrite Hsk. apply index_here. apply starts_with_refl.
  Qed.

  (* neither nested-element probe moves the end *)
  Lemma no_nested nd k n a tb mid R i : nd = LT :: k ++ [GT] \/ nd = LT :: k ++ [32] -> k = n -> name_ok n = true -> forallb attr_ok a = true -> tail_ok a tb = true ->
    skippable nd mid ->
    index_aux nd (open_tag n a tb ++ mid ++ close_tag n ++ R) 0 = Some i -> i = O \/ (length (open_tag n a tb ++ mid ++ close_tag n) <= i)%nat.
  Proof.
    intros Hnd -> Hn Ha Ht Hsk Hi.
    assert (exists d, nd = LT :: n ++ [d]) as [d E] by (destruct Hnd as [->| ->]; eexists; reflexivity). clear Hnd.
    destruct (starts_with nd (open_tag n a tb ++ mid ++ close_tag n ++ R)) eqn:Es.
    - left. rewrite (index_here _ _ _ Es) in Hi. congruence.
    - right. rewrite open_tag_body in Hi, Es. subst nd.
      rewrite (index_skip_tag2 _ _ _ _ (open_tag_body_nolt n a tb Hn Ha Ht) Es) in Hi.
      rewrite Hsk in Hi. rewrite close_tag_body in Hi.
      rewrite (index_skip_tag2 _ _ _ _ (close_tag_body_nolt n Hn)) in Hi.
      + apply index_ge in Hi. rewrite !app_length. rewrite open_tag_body, close_tag_body. cbn [length] in *. lia.
      + pose proof (open_needle_close n d n R Hn) as H. rewrite close_tag_body in H. exact H.
  Qed.

  Lemma find_end n a tb mid R : name_ok n = true -> forallb attr_ok a = true -> tail_ok a tb = true ->
    skippable (close_tag n) mid -> skippable (LT :: n ++ [GT]) mid -> skippable (LT :: n ++ [32]) mid ->
    find_end_of_element (open_tag n a tb ++ mid ++ close_tag n ++ R) (length (open_tag n a tb)) n =
    OK ((length (open_tag n a tb) + length mid)%nat, (length (open_tag n a tb) + length mid + length (close_tag n))%nat).
  Proof.
    intros Hn Ha Ht S1 S2 S3. unfold find_end_of_element.
    change ([LT; SLASH] ++ n ++ [GT]) with (close_tag n). change ([LT] ++ n ++ [GT]) with (LT :: n ++ [GT]). change ([LT] ++ n ++ [32]) with (LT :: n ++ [32]).
    rewrite (find_close n a tb mid R Hn S1). rewrite !index_from_0.
    set (x := open_tag n a tb ++ mid ++ close_tag n ++ R). set (e := (length (open_tag n a tb) + length mid)%nat).
    assert (Hlen : (e < length (open_tag n a tb ++ mid ++ close_tag n))%nat).
    { unfold e. rewrite !app_length. rewrite close_tag_body. cbn [length]. lia. }
    assert (B : forall nd, nd = LT :: n ++ [GT] \/ nd = LT :: n ++ [32] -> skippable nd mid ->
                match index_aux nd x 0 with
                | Some i => if negb (Nat.eqb i 0) && Nat.ltb i e
                            then match index_from (close_tag n) x (e + length (close_tag n)) with Some e' => e' | None => e end
                            else e
                | None => e
                end = e).
    { intros nd Hnd Hs. destruct (index_aux nd x 0) as [i|] eqn:Ei; [|reflexivity].
      destruct (no_nested nd n n a tb mid R i Hnd eq_refl Hn Ha Ht Hs Ei) as [->|Hge]; [reflexivity|].
      assert (Nat.ltb i e = false) as -> by (apply Nat.ltb_ge; lia). rewrite andb_false_r. reflexivity. }
    rewrite (B _ (or_introl eq_refl) S2). rewrite (B _ (or_intror eq_refl) S3). reflexivity.
  Qed.

  (* ---- the shape of a non-empty attribute text ---- *)
  Lemma ser_attrs_shape a : a <> [] -> forallb attr_ok a = true ->
    exists s0 c0 U, ser_attrs a = s0 :: c0 :: U /\ blank s0 = true /\ c0 <> NL /\ c0 <> GT /\ (forall c, In c U -> c <> GT /\ c <> NL) /\
                    count_trailing_slash (rev (c0 :: U)) = O.
  Proof.
    intros Hne Ha. destruct (ser_attrs_last a Hne) as [X EX].
    destruct a as [|[[sep k] v] l]; [congruence|]. pose proof Ha as Hall. cbn [forallb] in Ha. apply andb_true_iff in Ha as [Ha _].
    destruct (attr_ok_parts _ _ _ Ha) as (Hs & Hs0 & Hk & _ & _). apply name_ok_word in Hk as [Hkw Hk0].
    destruct sep as [|s0 sep']; [congruence|]. cbn [forallb] in Hs. apply andb_true_iff in Hs as [Hb _].
    pose proof (ser_attrs_chars _ Hall) as Hch.
    rewrite ser_attrs_cons in *. cbn [app] in *.
    destruct (sep' ++ attr_body k v ++ ser_attrs l) as [|c0 U] eqn:EU.
    { exfalso. apply app_eq_nil in EU as [_ EU]. apply app_eq_nil in EU as [EU _]. unfold attr_body in EU. apply app_eq_nil in EU as [EU _]. congruence. }
    exists s0, c0, U. split; [reflexivity|]. split; [exact Hb|].
    destruct (Hch c0 (or_intror (or_introl eq_refl))) as (A & B & _). split; [exact A|]. split; [exact B|]. split.
    - intros c Hc. destruct (Hch c (or_intror (or_intror Hc))) as (A' & B' & _). split; assumption.
    - destruct X as [|x0 X']; [cbn in EX; injection EX as _ EX; discriminate|].
      cbn [app] in EX. injection EX as _ EX. rewrite EX, rev_app_distr. reflexivity.
  Qed.

  Lemma ser_attrs_shape_tail a tb : a <> [] -> forallb attr_ok a = true -> forallb blank tb = true ->
    exists s0 c0 U, ser_attrs a ++ tb = s0 :: c0 :: U /\ blank s0 = true /\ c0 <> NL /\ c0 <> GT /\ (forall c, In c U -> c <> GT /\ c <> NL) /\
                    count_trailing_slash (rev (c0 :: U)) = O.
  Proof.
    intros Hne Ha Hb. destruct (ser_attrs_shape a Hne Ha) as (s0 & c0 & U & E & Hs & H1 & H2 & H3 & H4).
    exists s0, c0, (U ++ tb). rewrite E. split; [reflexivity|]. split; [exact Hs|]. split; [exact H1|]. split; [exact H2|]. split.
    - intros c Hc. apply in_app_or in Hc as [Hc|Hc]; [apply H3; exact Hc|]. rewrite forallb_forall in Hb. specialize (Hb c Hc). unfold blank, GT, NL in *. lia.
    - destruct tb as [|t0 tb'] eqn:Etb; [rewrite app_nil_r; exact H4|]. rewrite <- Etb in *.
      assert (Hl : exists tb0 q, tb = tb0 ++ [q]) by (destruct (@exists_last _ tb) as (x & y & ->); [rewrite Etb; discriminate|eexists; eexists; reflexivity]).
      destruct Hl as (tb0 & q & Eq). rewrite Eq. change (c0 :: U ++ tb0 ++ [q]) with ((c0 :: U) ++ tb0 ++ [q]). rewrite app_assoc, rev_app_distr. cbn [rev app count_trailing_slash].
      assert (Hq : blank q = true) by (rewrite forallb_forall in Hb; apply Hb; rewrite Eq; apply in_or_app; right; left; reflexivity).
      assert (q =? SLASH = false) as -> by (unfold blank, SLASH in *; lia). reflexivity.
  Qed.

  Definition rawopt (a : list attr) (tb : text) : option text := match a with [] => None | _ => Some (List.tl (ser_attrs a ++ tb)) end.

  Lemma parse_tag_open n a tb r : name_ok n = true -> forallb attr_ok a = true -> tail_ok a tb = true ->
    parse_tag uw (open_tag n a tb ++ r) = OK (n, rawopt a tb, length (open_tag n a tb)).
  Proof.
    intros Hn Ha Ht. destruct (tail_ok_parts a tb Ht) as [Hb Hnil]. destruct a as [|a0 l] eqn:Ea.
    - rewrite (Hnil eq_refl). unfold open_tag. cbn [ser_attrs flat_map app rawopt]. rewrite <- app_assoc. cbn [app]. rewrite (parse_tag_bare n r Hn).
      f_equal. f_equal. len.
    - rewrite <- Ea in *. assert (Hne : a <> []) by (rewrite Ea; discriminate).
      destruct (ser_attrs_shape_tail a tb Hne Ha Hb) as (s0 & c0 & U & E & Hs & H1 & H2 & H3 & H4).
      unfold open_tag. rewrite E. cbn [app]. rewrite <- ?app_assoc. cbn [app]. rewrite <- ?app_assoc. cbn [app].
      pose proof (parse_tag_attrs n s0 c0 U [] r Hn Hs H1 H3 H2 H4 (or_introl eq_refl)) as P. cbn [app length] in P. rewrite P.
      unfold rawopt. rewrite Ea. rewrite <- Ea. rewrite E. cbn [List.tl]. f_equal. f_equal. len.
  Qed.

  Lemma parse_tag_empty n a tb r : name_ok n = true -> forallb attr_ok a = true -> tail_ok a tb = true -> a <> [] ->
    parse_tag uw (empty_tag n a tb ++ r) = OK (n, rawopt a tb, length (empty_tag n a tb)).
  Proof.
    intros Hn Ha Ht Hne. destruct (tail_ok_parts a tb Ht) as [Hb _].
    destruct (ser_attrs_shape_tail a tb Hne Ha Hb) as (s0 & c0 & U & E & Hs & H1 & H2 & H3 & H4).
    unfold empty_tag. rewrite E. cbn [app]. rewrite <- ?app_assoc. cbn [app]. rewrite <- ?app_assoc. cbn [app].
    pose proof (parse_tag_attrs n s0 c0 U [SLASH] r Hn Hs H1 H3 H2 H4 (or_intror eq_refl)) as P. cbn [app length] in P. rewrite P.
    unfold rawopt. destruct a; [congruence|]. rewrite E. cbn [List.tl]. f_equal. f_equal. len.
  Qed.

  (* ---- the attribute dictionary ---- *)
  Definition akey (a : attr) : text := snd (fst a).
  Lemma attr_set_fresh k v d : (forall kv, In kv d -> text_eqb k (fst kv) = false) -> attr_set k v d = d ++ [(k, v)].
  Proof.
    induction d as [|[k' v'] d IH]; intros H; cbn [attr_set app]; [reflexivity|].
    pose proof (H (k', v') (or_introl eq_refl)) as H0. cbn [fst] in H0. rewrite H0. f_equal. apply IH. intros kv Hkv. apply H. right. exact Hkv.
  Qed.

  Lemma set_all_fresh l : forall d, distinct (map akey l) = true ->
    (forall a kv, In a l -> In kv d -> text_eqb (akey a) (fst kv) = false) -> set_all l d = d ++ attr_dict l.
  Proof.
    induction l as [|[[sep k] v] l IH]; intros d Hd Hf; cbn [set_all fold_left attr_dict map]; [symmetry; apply app_nil_r|].
    cbn [fst snd]. cbn [map distinct] in Hd. change (akey (sep, k, v)) with k in Hd. apply andb_true_iff in Hd as [Hk Hd]. apply negb_true_iff in Hk.
    rewrite attr_set_fresh by (intros kv Hkv; apply (Hf (sep, k, v) kv (or_introl eq_refl) Hkv)).
    fold (set_all l (d ++ [(k, v)])). rewrite IH.
    - rewrite <- app_assoc. reflexivity.
    - exact Hd.
    - intros a kv Ha Hkv. apply in_app_or in Hkv as [Hkv|[<-|[]]].
      + apply (Hf a kv (or_intror Ha) Hkv).
      + cbn [fst]. destruct (text_eqb (akey a) k) eqn:E; [|reflexivity]. apply text_eqb_spec in E.
        assert (existsb (text_eqb k) (map akey l) = true); [|congruence].
        apply existsb_exists. exists (akey a). split; [apply in_map; exact Ha|]. rewrite E. apply text_eqb_refl.
  Qed.

  Definition aopt (a : list attr) : option (list (text * text)) := match a with [] => None | _ => Some (attr_dict a) end.

  Lemma parse_attrs_strip_eq f x y acc : x <> [] -> y <> [] -> strip x = strip y -> parse_attrs uw (S f) x acc = parse_attrs uw (S f) y acc.
  Proof. intros Hx Hy E. rewrite (parse_attrs_unfold f x acc Hx), (parse_attrs_unfold f y acc Hy), E. reflexivity. Qed.

  Lemma parse_raw a tb fuel : attrs_ok a = true -> tail_ok a tb = true -> (length a < fuel)%nat ->
    match rawopt a tb with
    | None => Done None
    | Some raw => match parse_attrs uw fuel raw [] with Done d => Done (Some d) | Fail c => Fail c | OutOfFuel => OutOfFuel end
    end = Done (aopt a).
  Proof.
    intros Hok Ht Hf. destruct (tail_ok_parts a tb Ht) as [Hb _]. destruct a as [|[[sep k] v] l]; [reflexivity|]. unfold rawopt, aopt.
    unfold attrs_ok in Hok. apply andb_true_iff in Hok as [Ha Hd]. cbn [forallb] in Ha. apply andb_true_iff in Ha as [Ha Hl].
    destruct (attr_ok_parts _ _ _ Ha) as (Hs & Hs0 & Hk & Hv0 & Hv).
    rewrite ser_attrs_cons. destruct sep as [|s0 sep']; [congruence|]. cbn [app List.tl]. cbn [forallb] in Hs. apply andb_true_iff in Hs as [_ Hs].
    destruct fuel as [|fuel']; [lia|]. cbn [length] in Hf.
    assert (Estrip : strip ((sep' ++ attr_body k v ++ ser_attrs l) ++ tb) = strip (sep' ++ attr_body k v ++ ser_attrs l)).
    { destruct (body_edges k v l Hk) as [E1 E2].
      rewrite (strip_core0 sep' _ (blanks_all_space _ Hs) E1 E2). rewrite <- app_assoc.
      apply (strip_core sep' _ tb (blanks_all_space _ Hs) (blanks_all_space _ Hb) E1 E2). }
    rewrite (parse_attrs_strip_eq fuel' _ (sep' ++ attr_body k v ++ ser_attrs l) [] ltac:(intros E; apply app_eq_nil in E as [E _]; revert E; apply body_nonempty; exact Hk) (body_nonempty sep' k v _ Hk) Estrip).
    rewrite (parse_attrs_loop l sep' k v [] fuel' Hs Hk Hv0 Hv Hl ltac:(lia)).
    cbn [attr_set]. f_equal. f_equal.
    change (map (fun a : text * text * text => snd (fst a)) ((s0 :: sep', k, v) :: l)) with (k :: map akey l) in Hd.
    cbn [distinct] in Hd. apply andb_true_iff in Hd as [Hk1 Hd]. apply negb_true_iff in Hk1.
    rewrite set_all_fresh; [reflexivity|exact Hd|].
    intros a kv Ha' [<-|[]]. cbn [fst]. destruct (text_eqb (akey a) k) eqn:E; [|reflexivity]. apply text_eqb_spec in E.
    assert (existsb (text_eqb k) (map akey l) = true); [|congruence].
    apply existsb_exists. exists (akey a). split; [apply in_map; exact Ha'|]. rewrite E. apply text_eqb_refl.
  Qed.

  (* ---- parse_first_element ---- *)
  Lemma slice_mid (A B C : text) : slice (A ++ B ++ C) (length A) (length A + length B) = B.
  Proof.
    unfold slice. rewrite skipn_app, skipn_all. replace (length A - length A)%nat with O by lia. cbn [skipn app].
    replace (length A + length B - length A)%nat with (length B) by lia. rewrite firstn_app, firstn_all.
    replace (length B - length B)%nat with O by lia. cbn [firstn]. apply app_nil_r.
  Qed.

  Lemma open_tag_split n a tb : name_ok n = true -> forallb attr_ok a = true -> tail_ok a tb = true -> exists P q, open_tag n a tb = P ++ [q; GT] /\ q <> SLASH.
  Proof.
    intros Hn Ha Ht. destruct (tail_ok_parts a tb Ht) as [Hb Hnil]. apply name_ok_word in Hn as [Hw Hn0].
    destruct tb as [|t0 tb'] eqn:Etb.
    - destruct a as [|a0 l] eqn:Ea.
      + destruct (@exists_last _ n Hn0) as (n' & q & ->). exists (LT :: n'), q. split.
        * unfold open_tag. cbn [ser_attrs flat_map app]. rewrite <- app_assoc. reflexivity.
        * rewrite forallb_app in Hw. apply andb_true_iff in Hw as [_ Hq]. cbn [forallb] in Hq. unfold ascii_word, SLASH in *. lia.
      + rewrite <- Ea in *. destruct (ser_attrs_last a) as [X EX]; [rewrite Ea; discriminate|].
        exists (LT :: n ++ X), QUOTE. split; [|unfold QUOTE, SLASH; lia].
        unfold open_tag. rewrite EX, app_nil_r. cbn [app]. rewrite <- !app_assoc. reflexivity.
    - rewrite <- Etb in *. destruct (@exists_last _ tb) as (tb0 & q & Eq); [rewrite Etb; discriminate|].
      exists (LT :: n ++ ser_attrs a ++ tb0), q. split.
      + unfold open_tag. rewrite Eq. cbn [app]. rewrite <- !app_assoc. reflexivity.
      + assert (Hq : blank q = true) by (rewrite forallb_forall in Hb; apply Hb; rewrite Eq; apply in_or_app; right; left; reflexivity).
        unfold blank, SLASH in *. lia.
  Qed.

  Lemma not_selfclosing n a tb r : name_ok n = true -> forallb attr_ok a = true -> tail_ok a tb = true ->
    text_eqb (slice (open_tag n a tb ++ r) (length (open_tag n a tb) - 2) (length (open_tag n a tb))) [SLASH; GT] = false.
  Proof.
    intros Hn Ha Ht. destruct (open_tag_split n a tb Hn Ha Ht) as (P & q & E & Hq). rewrite E.
    replace (length (P ++ [q; GT]) - 2)%nat with (length P) by len.
    replace (length (P ++ [q; GT])) with (length P + length [q; GT])%nat by len.
    rewrite <- app_assoc. rewrite slice_mid. cbn [text_eqb]. assert (q =? SLASH = false) as -> by (apply Z.eqb_neq; exact Hq). reflexivity.
  Qed.

  Lemma first_element_pair fuel n a tb mid R : name_ok n = true -> attrs_ok a = true -> tail_ok a tb = true -> (length a < fuel)%nat ->
    skippable (close_tag n) mid -> skippable (LT :: n ++ [GT]) mid -> skippable (LT :: n ++ [32]) mid ->
    first_element uw fuel (open_tag n a tb ++ mid ++ close_tag n ++ R) =
    Done (n, aopt a, strip mid, length (open_tag n a tb ++ mid ++ close_tag n)).
  Proof.
    intros Hn Hok Ht Hf S1 S2 S3. pose proof Hok as Hok'. unfold attrs_ok in Hok'. apply andb_true_iff in Hok' as [Ha _].
    unfold first_element. rewrite (parse_tag_open n a tb _ Hn Ha Ht). cbv zeta.
    rewrite (parse_raw a tb fuel Hok Ht Hf).
    rewrite (not_selfclosing n a tb _ Hn Ha Ht).
    rewrite (find_end n a tb mid R Hn Ha Ht S1 S2 S3).
    rewrite slice_mid. f_equal. f_equal. len.
  Qed.

  Lemma first_element_empty fuel n a tb R : name_ok n = true -> attrs_ok a = true -> tail_ok a tb = true -> a <> [] -> (length a < fuel)%nat ->
    first_element uw fuel (empty_tag n a tb ++ R) = Done (n, aopt a, [], length (empty_tag n a tb)).
  Proof.
    intros Hn Hok Ht Hne Hf. pose proof Hok as Hok'. unfold attrs_ok in Hok'. apply andb_true_iff in Hok' as [Ha _].
    unfold first_element. rewrite (parse_tag_empty n a tb R Hn Ha Ht Hne). cbv zeta.
    rewrite (parse_raw a tb fuel Hok Ht Hf).
    assert (ES : exists P, empty_tag n a tb = P ++ [SLASH; GT]).
    { exists ([LT] ++ n ++ (ser_attrs a ++ tb)). unfold empty_tag. rewrite <- !app_assoc. reflexivity. }
    destruct ES as [P EP]. rewrite EP.
    replace (length (P ++ [SLASH; GT]) - 2)%nat with (length P) by len.
    replace (length (P ++ [SLASH; GT])) with (length P + length [SLASH; GT])%nat by len.
    rewrite <- app_assoc. rewrite slice_mid. cbn [text_eqb]. rewrite !Z.eqb_refl. reflexivity.
  Qed.

  (* ---- the middle parts can be skipped by the three searches ---- *)
  Lemma skippable_nolt nd' s : no_lt s = true -> skippable (LT :: nd') s.
  Proof. intros H rest pos. apply index_skip_nolt. exact H. Qed.

  Lemma skippable_node nd n pre cs : misses nd n -> all_space pre = true -> forallb wf cs = true -> ~ In n (flat_map names cs) ->
    skippable nd (pre ++ kids cs).
  Proof.
    intros M Hpre Hcs Hn rest pos. destruct M as [[nd' E] Mc Mo]. pose proof (Build_misses nd n (ex_intro _ nd' E) Mc Mo) as M.
    rewrite <- app_assoc. subst nd. rewrite (index_skip_nolt nd' pre (all_space_nolt _ Hpre)).
    rewrite (skip_kids (LT :: nd') cs).
    - f_equal. len.
    - rewrite Forall_forall. intros c Hc r p. apply (skip_elem _ n M).
      + rewrite forallb_forall in Hcs. apply Hcs. exact Hc.
      + intros Hin. apply Hn. apply in_flat_map. exists c. split; assumption.
    - eexists. reflexivity.
    - rewrite forallb_forall in *. intros c Hc. apply wf_after. apply Hcs. exact Hc.
  Qed.

  (* ---- edges of elements ---- *)
  Lemma elem_edges t : wf t = true -> edge_ok (elem t) = true /\ edge_ok (rev (elem t)) = true.
  Proof.
    intros _. assert (E : exists X Y, elem t = LT :: X /\ elem t = Y ++ [GT]).
    { destruct t as [n a tb lp c rp aft|n a tb aft|n a tb pre cs aft]; cbn [elem].
      - exists (n ++ (ser_attrs a ++ tb) ++ [GT] ++ (lp ++ c ++ rp) ++ close_tag n), (open_tag n a tb ++ (lp ++ c ++ rp) ++ [LT; SLASH] ++ n). split.
        + unfold open_tag. cbn [app]. rewrite <- !app_assoc. reflexivity.
        + unfold close_tag. rewrite <- !app_assoc. reflexivity.
      - exists (n ++ (ser_attrs a ++ tb) ++ [SLASH; GT]), ([LT] ++ n ++ (ser_attrs a ++ tb) ++ [SLASH]). split; [reflexivity|]. unfold empty_tag. rewrite <- !app_assoc. reflexivity.
      - exists (n ++ (ser_attrs a ++ tb) ++ [GT] ++ pre ++ flat_map (fun c => elem c ++ tafter c) cs ++ close_tag n),
               (open_tag n a tb ++ pre ++ flat_map (fun c => elem c ++ tafter c) cs ++ [LT; SLASH] ++ n). split.
        + unfold open_tag. cbn [app]. rewrite <- !app_assoc. reflexivity.
        + unfold close_tag. rewrite <- !app_assoc. reflexivity. }
    destruct E as (X & Y & E1 & E2). split; [rewrite E1; reflexivity|rewrite E2, rev_app_distr; reflexivity].
  Qed.

  Fixpoint inner (cs : list tree) : text :=
    match cs with
    | [] => []
    | c :: t => match t with [] => elem c | _ => elem c ++ tafter c ++ inner t end
    end.

  Lemma inner_cons c t : inner (c :: t) = elem c ++ match t with [] => [] | _ => tafter c ++ inner t end.
  Proof. destruct t; cbn [inner]; [symmetry; apply app_nil_r|reflexivity]. Qed.

  Lemma kids_inner cs : cs <> [] -> kids cs = inner cs ++ tafter (last cs (Leaf [] [] [] [] [] [] [])).
  Proof.
    induction cs as [|c t IH]; intros Hne; [congruence|]. destruct t as [|c2 t'].
    - cbn [kids flat_map inner last]. rewrite app_nil_r. reflexivity.
    - change (kids (c :: c2 :: t')) with ((elem c ++ tafter c) ++ kids (c2 :: t')). rewrite IH by discriminate.
      change (inner (c :: c2 :: t')) with (elem c ++ tafter c ++ inner (c2 :: t')). change (last (c :: c2 :: t') (Leaf [] [] [] [] [] [] [])) with (last (c2 :: t') (Leaf [] [] [] [] [] [] [])).
      rewrite <- !app_assoc. reflexivity.
  Qed.

  Lemma inner_edges cs : cs <> [] -> forallb wf cs = true -> edge_ok (inner cs) = true /\ edge_ok (rev (inner cs)) = true.
  Proof.
    induction cs as [|c t IH]; intros Hne Hwf; [congruence|]. cbn [forallb] in Hwf. apply andb_true_iff in Hwf as [Hc Ht].
    destruct (elem_edges c Hc) as [E1 E2]. destruct t as [|c2 t'].
    - cbn [inner]. split; assumption.
    - change (inner (c :: c2 :: t')) with (elem c ++ tafter c ++ inner (c2 :: t')). destruct (IH ltac:(discriminate) Ht) as [_ I2]. split.
      + destruct (elem c) eqn:Ee; [|exact E1]. exfalso. destruct c; cbn [elem] in Ee; unfold open_tag, empty_tag in Ee; discriminate.
      + rewrite !rev_app_distr. destruct (rev (inner (c2 :: t'))) eqn:Er; [|exact I2].
        exfalso. apply (f_equal (@rev Z)) in Er. rewrite rev_involutive in Er. cbn [rev] in Er.
        change (inner (c2 :: t')) with (match t' with [] => elem c2 | _ => elem c2 ++ tafter c2 ++ inner t' end) in Er.
        destruct c2, t'; cbn [elem] in Er; unfold open_tag, empty_tag in Er; discriminate.
  Qed.

  Lemma last_wf cs : cs <> [] -> forallb wf cs = true -> all_space (tafter (last cs (Leaf [] [] [] [] [] [] []))) = true.
  Proof.
    induction cs as [|c t IH]; intros Hne Hwf; [congruence|]. cbn [forallb] in Hwf. apply andb_true_iff in Hwf as [Hc Ht].
    destruct t as [|c2 t']; [cbn [last]; apply wf_after; exact Hc|]. change (last (c :: c2 :: t') (Leaf [] [] [] [] [] [] [])) with (last (c2 :: t') (Leaf [] [] [] [] [] [] [])).
    apply IH; [discriminate|exact Ht].
  Qed.

  Lemma strip_node_mid pre cs : all_space pre = true -> cs <> [] -> forallb wf cs = true -> strip (pre ++ kids cs) = inner cs.
  Proof.
    intros Hpre Hne Hwf. rewrite (kids_inner cs Hne). destruct (inner_edges cs Hne Hwf) as [E1 E2].
    apply strip_core; auto. apply last_wf; assumption.
  Qed.

  (* ---- one turn of _parse_recursively's loop ---- *)
  Definition sub_value (d : nat) (value : text) : outcome val :=
    match value with
    | v0 :: _ =>
        if v0 =? LT then
          match d with
          | O => Fail ValueError
          | S d' => match parse_rec uw d' (S (length value)) value [] with
                    | Done sub => Done (VNode sub) | Fail cls => Fail cls | OutOfFuel => OutOfFuel
                    end
          end
        else Done (VStr value)
    | [] => Done (VStr [])
    end.

  Lemma sub_value_node d' v Y : v = LT :: Y ->
    sub_value (S d') v = match parse_rec uw d' (S (length v)) v [] with Done sub => Done (VNode sub) | Fail c => Fail c | OutOfFuel => OutOfFuel end.
  Proof. intros ->. unfold sub_value. rewrite Z.eqb_refl. reflexivity. Qed.

  Lemma parse_rec_eq d f xml acc : xml <> [] ->
    parse_rec uw d (S f) xml acc =
    match strip xml with
    | [] => Fail IndexError
    | c :: _ =>
        if negb (c =? LT) then Fail ValueError else
        match first_element uw (S (length (strip xml))) (strip xml) with
        | Fail cls => Fail cls
        | OutOfFuel => OutOfFuel
        | Done (name, attrs, value, end_idx) =>
            match sub_value d value with
            | Fail cls => Fail cls
            | OutOfFuel => OutOfFuel
            | Done v => parse_rec uw d f (skipn end_idx (strip xml)) (store name (match attrs with Some a => VAttrs a v | None => v end) acc)
            end
        end
    end.
  Proof. intros Hne. destruct xml as [|x0 xml']; [congruence|]. destruct d; reflexivity. Qed.

  Lemma parse_rec_nil d f acc : parse_rec uw d (S f) [] acc = Done acc.
  Proof. destruct d; reflexivity. Qed.

  (* ---- the reader extracts the tree ---- *)
  Definition kvs (cs : list tree) : list (text * val) := map (fun c => (tname c, val_of c)) cs.
  Definition storeall (l : list (text * val)) (acc : list (text * val)) : list (text * val) := fold_left (fun d kv => store (fst kv) (snd kv) d) l acc.

  Definition children_ok (d : nat) : Prop :=
    forall cs, forallb wf cs = true -> (forall c, In c cs -> (height c <= d)%nat) ->
    forall W acc fuel, all_space W = true -> (cs <> [] \/ W = []) -> (length (W ++ inner cs) < fuel)%nat ->
    parse_rec uw d fuel (W ++ inner cs) acc = Done (storeall (kvs cs) acc).

  Lemma attrs_len a : forallb attr_ok a = true -> (length a <= length (ser_attrs a))%nat.
  Proof.
    induction a as [|[[sep k] v] a IH]; intros H; [cbn; lia|]. cbn [forallb] in H. apply andb_true_iff in H as [Ha H].
    destruct (attr_ok_parts _ _ _ Ha) as (_ & Hs0 & _). rewrite ser_attrs_cons. destruct sep; [congruence|]. specialize (IH H). len.
  Qed.

  Lemma wrap_aopt a v : match aopt a with Some d => VAttrs d v | None => v end = wrap a v.
  Proof. destruct a; reflexivity. Qed.

  Lemma height_children n a tb pre cs aft d' : (height (Node n a tb pre cs aft) <= S d')%nat -> forall c, In c cs -> (height c <= d')%nat.
  Proof.
    cbn [height]. intros H. assert (H' : (fold_right (fun c m => Nat.max (height c) m) O cs <= d')%nat) by lia. clear H.
    induction cs as [|c0 cs IH]; intros c Hc; [destruct Hc|]. cbn [fold_right] in H'. destruct Hc as [<-|Hc]; [lia|]. apply IH; [lia|exact Hc].
  Qed.

  Lemma elem_nonempty t : exists X, elem t = LT :: X.
  Proof. destruct t; cbn [elem]; unfold open_tag, empty_tag; cbn [app]; eexists; reflexivity. Qed.

  Lemma skipn_elem (A B : text) : skipn (length A) (A ++ B) = B.
  Proof. rewrite skipn_app, skipn_all. replace (length A - length A)%nat with O by lia. reflexivity. Qed.

  Lemma child_step d : (forall d', d = S d' -> children_ok d') ->
    forall c, wf c = true -> (height c <= d)%nat -> forall W R acc f, all_space W = true -> edge_ok (rev (elem c ++ R)) = true ->
    parse_rec uw d (S f) (W ++ elem c ++ R) acc = parse_rec uw d f R (store (tname c) (val_of c) acc).
  Proof.
    intros IHd c Hwf Hh W R acc f HW HR.
    destruct (elem_nonempty c) as [X EX].
    assert (Hne : W ++ elem c ++ R <> []).
    { intros E. apply app_eq_nil in E as [_ E]. apply app_eq_nil in E as [E _]. rewrite EX in E. discriminate. }
    rewrite (parse_rec_eq d f _ acc Hne).
    assert (Hstrip : strip (W ++ elem c ++ R) = elem c ++ R).
    { apply strip_core0; [exact HW| |exact HR]. rewrite EX. reflexivity. }
    rewrite Hstrip. rewrite EX at 1. cbn [app]. rewrite Z.eqb_refl. cbn [negb].
    destruct c as [n a tb lp cont rp aft|n a tb aft|n a tb pre cs aft].
    - (* leaf *)
      cbn [wf] in Hwf. apply andb_true_iff in Hwf as [Hwf _]. apply andb_true_iff in Hwf as [Hwf Hrp]. apply andb_true_iff in Hwf as [Hwf Hlp].
      apply andb_true_iff in Hwf as [Hwf Hc]. apply andb_true_iff in Hwf as [Hwf Ht]. apply andb_true_iff in Hwf as [Hn Hok].
      pose proof Hok as Hok'. unfold attrs_ok in Hok'. apply andb_true_iff in Hok' as [Ha _].
      unfold content_ok in Hc. apply andb_true_iff in Hc as [Hc Hc2]. apply andb_true_iff in Hc as [Hnl Hc1].
      assert (Hmid : no_lt (lp ++ cont ++ rp) = true) by (rewrite !no_lt_app, Hnl, (all_space_nolt _ Hlp), (all_space_nolt _ Hrp); reflexivity).
      cbn [elem tname val_of]. rewrite <- !app_assoc.
      replace (lp ++ cont ++ rp ++ close_tag n ++ R) with ((lp ++ cont ++ rp) ++ close_tag n ++ R) by (rewrite <- !app_assoc; reflexivity).
      rewrite (first_element_pair _ n a tb (lp ++ cont ++ rp) R Hn Hok Ht).
      + assert (Hs : strip (lp ++ cont ++ rp) = cont) by (apply (strip_core lp cont rp Hlp Hrp Hc1 Hc2)). rewrite Hs.
        assert (Hsub : sub_value d cont = Done (VStr cont)).
        { destruct cont as [|v0 cont']; [reflexivity|]. cbn [sub_value]. cbn [no_lt forallb] in Hnl. apply andb_true_iff in Hnl as [H0 _].
          apply negb_true_iff in H0. rewrite H0. reflexivity. }
        rewrite Hsub. rewrite wrap_aopt.
        replace (open_tag n a tb ++ (lp ++ cont ++ rp) ++ close_tag n ++ R) with ((open_tag n a tb ++ (lp ++ cont ++ rp) ++ close_tag n) ++ R) by (rewrite <- !app_assoc; reflexivity).
        rewrite skipn_elem. reflexivity.
      + pose proof (attrs_len a Ha). rewrite !app_length. unfold open_tag. rewrite !app_length. lia.
      + change (close_tag n) with (LT :: (SLASH :: n ++ [GT])). apply skippable_nolt. exact Hmid.
      + apply skippable_nolt. exact Hmid.
      + apply skippable_nolt. exact Hmid.
    - (* empty element *)
      cbn [wf] in Hwf. apply andb_true_iff in Hwf as [Hwf _]. apply andb_true_iff in Hwf as [Hwf Hne']. apply andb_true_iff in Hwf as [Hwf Ht]. apply andb_true_iff in Hwf as [Hn Hok].
      pose proof Hok as Hok'. unfold attrs_ok in Hok'. apply andb_true_iff in Hok' as [Ha _].
      assert (Hane : a <> []) by (destruct a; [discriminate|discriminate]).
      cbn [elem tname val_of].
      rewrite (first_element_empty _ n a tb R Hn Hok Ht Hane).
      + cbn [sub_value]. rewrite wrap_aopt. rewrite skipn_elem. reflexivity.
      + pose proof (attrs_len a Ha). rewrite !app_length. unfold empty_tag. rewrite !app_length. lia.
    - (* element with children *)
      pose proof (wf_node _ _ _ _ _ _ Hwf) as (Hn & Hok & Ht & Hpre & _ & Hcs0 & Hcs & Hnn).
      pose proof Hok as Hok'. unfold attrs_ok in Hok'. apply andb_true_iff in Hok' as [Ha _].
      cbn [elem tname val_of]. fold (kids cs). rewrite <- !app_assoc.
      replace (pre ++ kids cs ++ close_tag n ++ R) with ((pre ++ kids cs) ++ close_tag n ++ R) by (rewrite <- !app_assoc; reflexivity).
      rewrite (first_element_pair _ n a tb (pre ++ kids cs) R Hn Hok Ht).
      + rewrite (strip_node_mid pre cs Hpre Hcs0 Hcs).
        destruct d as [|d']; [cbn [height] in Hh; lia|].
        assert (Hsub : sub_value (S d') (inner cs) = Done (VNode (collect (kvs cs)))).
        { destruct cs as [|c0 cs']; [congruence|]. destruct (elem_nonempty c0) as [X0 E0].
          assert (Ein : exists Y, inner (c0 :: cs') = LT :: Y).
          { rewrite inner_cons, E0. cbn [app]. eexists. reflexivity. }
          destruct Ein as [Y EY]. rewrite (sub_value_node d' _ Y EY).
          assert (Hlt : (length ([] ++ inner (c0 :: cs')) < S (length (inner (c0 :: cs'))))%nat) by (rewrite app_nil_l; apply Nat.lt_succ_diag_r).
          pose proof (height_children n a tb pre (c0 :: cs') aft d' Hh) as Hh'.
          pose proof (IHd d' eq_refl) as T. unfold children_ok in T.
          pose proof (T (c0 :: cs') Hcs Hh' [] [] _ eq_refl (or_introl Hcs0) Hlt) as P.
          rewrite app_nil_l in P. rewrite P. reflexivity. }
        rewrite Hsub. rewrite wrap_aopt.
        replace (open_tag n a tb ++ (pre ++ kids cs) ++ close_tag n ++ R) with ((open_tag n a tb ++ (pre ++ kids cs) ++ close_tag n) ++ R) by (rewrite <- !app_assoc; reflexivity).
        rewrite skipn_elem. reflexivity.
      + pose proof (attrs_len a Ha). rewrite !app_length. unfold open_tag. rewrite !app_length. lia.
      + apply (skippable_node _ n); auto. apply misses_close. exact Hn.
      + apply (skippable_node _ n); auto. apply misses_open; [exact Hn|reflexivity].
      + apply (skippable_node _ n); auto. apply misses_open; [exact Hn|reflexivity].
  Qed.

  Lemma children_step d : (forall d', d = S d' -> children_ok d') -> children_ok d.
  Proof.
    intros Hd cs. induction cs as [|c t IH]; intros Hwf Hh W acc fuel HW Hor Hf.
    - destruct Hor as [H| ->]; [congruence|]. cbn [inner app] in *. destruct fuel as [|f]; [cbn in Hf; lia|]. apply parse_rec_nil.
    - cbn [forallb] in Hwf. apply andb_true_iff in Hwf as [Hc Ht].
      rewrite inner_cons in *. destruct fuel as [|f]; [cbn in Hf; lia|].
      destruct (inner_edges (c :: t) ltac:(discriminate) ltac:(cbn [forallb]; rewrite Hc, Ht; reflexivity)) as [_ E2]. rewrite inner_cons in E2.
      rewrite (child_step d Hd c Hc (Hh c (or_introl eq_refl)) W _ acc f HW E2).
      destruct (elem_nonempty c) as [X EX].
      destruct t as [|c2 t']; cbv iota in *.
      + cbn [kvs map storeall fold_left fst snd]. destruct f as [|f']; [rewrite EX in Hf; rewrite !app_length in Hf; cbn [length] in Hf; lia|]. apply parse_rec_nil.
      + assert (Hh' : forall c', In c' (c2 :: t') -> (height c' <= d)%nat) by (intros c' Hc'; apply Hh; right; exact Hc').
        assert (Hne2 : c2 :: t' <> []) by discriminate.
        assert (Hf' : (length (tafter c ++ inner (c2 :: t')) < f)%nat).
        { rewrite !app_length in Hf. rewrite EX in Hf. cbn [length] in Hf. rewrite app_length. lia. }
        exact (IH Ht Hh' (tafter c) (store (tname c) (val_of c) acc) f (wf_after c Hc) (or_introl Hne2) Hf').
  Qed.

  Theorem children_all d : children_ok d.
  Proof.
    induction d as [|d IH]; apply children_step.
    - intros d' E. discriminate E.
    - intros d' E. injection E as <-. exact IH.
  Qed.

  Lemma parse_rec_strip d f xml xml' acc : xml <> [] -> xml' <> [] -> strip xml = strip xml' ->
    parse_rec uw d (S f) xml acc = parse_rec uw d (S f) xml' acc.
  Proof. intros H1 H2 E. rewrite (parse_rec_eq d f xml acc H1), (parse_rec_eq d f xml' acc H2), E. reflexivity. Qed.

  (* C12 (and the character level of C11): on a document in the plain form the reader returns exactly the tree *)
  Theorem reader_extracts_tree t : wf t = true -> (height t <= 5)%nat -> parse uw (ser t) = Done [(tname t, val_of t)].
  Proof.
    intros Hwf Hh. unfold parse, ser. destruct (elem_nonempty t) as [X EX].
    destruct (elem_edges t Hwf) as [E1 E2].
    assert (N1 : elem t ++ tafter t <> []) by (rewrite EX; discriminate).
    assert (N2 : [] ++ elem t ++ [] <> []) by (rewrite EX; discriminate).
    rewrite (parse_rec_strip 5 _ _ ([] ++ elem t ++ []) [] N1 N2).
    - rewrite (child_step 5 (fun d' _ => children_all d') t Hwf Hh [] [] [] _ eq_refl); [|rewrite app_nil_r; exact E2].
      cbn [store]. rewrite EX. cbn [app length]. apply parse_rec_nil.
    - cbn [app]. rewrite app_nil_r.
      pose proof (strip_core [] (elem t) (tafter t) eq_refl (wf_after t Hwf) E1 E2) as S1. cbn [app] in S1. rewrite S1.
      symmetry. apply (strip_core0 [] (elem t) eq_refl E1 E2).
  Qed.

  (* anything before the KSR element is ignored *)
  Theorem reader_ignores_prolog P t : (forall rest pos, index_aux KSR_OPEN (P ++ rest) pos = index_aux KSR_OPEN rest (pos + length P)%nat) ->
    (exists n', tname t = [75; 83; 82] ++ n') -> wf t = true -> (height t <= 5)%nat ->
    parse_ksr uw (P ++ ser t) = Done [(tname t, val_of t)].
  Proof.
    intros HP [n' Hn] Hwf Hh. unfold parse_ksr. rewrite index_from_0, HP.
    assert (Hs : starts_with KSR_OPEN (ser t) = true).
    { unfold ser. destruct t as [n a tb lp c rp aft|n a tb aft|n a tb pre cs aft]; cbn [tname] in Hn; subst n; reflexivity. }
    rewrite (index_here _ _ _ Hs). cbn [Nat.add]. rewrite skipn_elem. apply reader_extracts_tree; assumption.
  Qed.
End P.
