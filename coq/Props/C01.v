(* C01 - Every emitted signature is a valid RRSIG over exactly the published DNSKEY set.
   RSA / ECDSA / SHA-2 are oracles: `verify` is the software verification the signer performs, the
   independent validator (dnspython) is exercised by the correspondence harness. *)
From Coq Require Import String Sorting.Permutation.
From KV Require Import Base.Prelude Base.Exn Base.Bytes Model.Data Model.Wire Model.KsrPolicy Model.Token Model.Sign
  Proofs.WireProofs Proofs.TokenProofs Proofs.SignProofs Proofs.Bridge15.

(* lemmas proved inside a Section are generalised over the section's oracle variables even where unused:
   instantiate the unused ones with dummies *)
Definition dH : Z -> list Z -> list Z := fun _ _ => [].
Definition dT : P11Key -> Z -> list Z -> res text := fun _ _ _ => Raise 0.
Definition dV : text -> Z -> list Z -> text -> bool := fun _ _ _ _ => false.
Definition dD : list Z -> text := fun _ => [].

Theorem C01_signed_fields : forall H token_sign verify b keys sk ttl sn s,
  sign_keys H token_sign verify b keys sk ttl sn = OK s ->
  s_inc s = b_inc b /\ s_exp s = b_exp b /\ s_ttl s = ttl /\ s_ottl s = ttl /\ s_name s = dot /\ s_labels s = 0 /\
  s_type s = TYPE_DNSKEY /\ s_alg s = k_alg (ck_dns sk) /\ s_id s = k_id (ck_dns sk) /\
  (exists dk, kts_get (k_id (ck_dns sk)) keys = Some dk /\ s_tag s = k_tag dk) /\
  Forall (fun k => k_ttl k = ttl) keys /\
  exists raw pubtxt, make_raw_rrsig (mkSig (s_id s) ttl TYPE_DNSKEY (s_alg s) 0 ttl (b_exp b) (b_inc b) (s_tag s) sn [] []) keys = OK raw /\
    pk_pub (ck_p11 sk) = Some pubtxt /\ verify pubtxt (s_alg s) raw (s_datatxt s) = true /\
    sign_using_p11 H token_sign (ck_p11 sk) raw (s_alg s) = OK (s_datatxt s).
Proof. exact (fun H ts v => signed_fields H ts v dD). Qed.
Print Assumptions C01_signed_fields.

(* every signature of every response bundle verifies over the RFC 4034 signature data of ALL keys published in that bundle *)
Theorem C01_emitted_signatures_verify : forall H token_sign verify ds_hex i b schema ms ttl sn kks rb,
  sign_bundle H token_sign verify ds_hex i b schema ms ttl sn kks true = OK rb ->
  forall s, In s (b_sigs rb) ->
    exists key tbs, In key (b_keys rb) /\ k_id key = s_id s /\ rfc4034_signature_data s (b_keys rb) tbs /\
                    verify (k_pubtxt key) (k_alg key) tbs (s_datatxt s) = true.
Proof.
  intros H ts v dh i b sch ms ttl sn kks rb Hb.
  exact (proj2 (proj2 (proj2 (proj2 (proj2 (proj2 (proj2 (response_bundle_facts H ts v dh i b sch ms ttl sn kks true rb Hb))))))) eq_refl).
Qed.
Print Assumptions C01_emitted_signatures_verify.

Theorem C01_tbs_is_rfc4034 : forall s keys out, make_raw_rrsig s keys = OK out -> rfc4034_signature_data s keys out.
Proof. exact make_raw_rrsig_is_rfc. Qed.
Print Assumptions C01_tbs_is_rfc4034.

Theorem C01_tbs_perm_invariant : forall s keys keys', Permutation keys keys' -> make_raw_rrsig s keys = make_raw_rrsig s keys'.
Proof. exact tbs_perm_invariant. Qed.
Print Assumptions C01_tbs_perm_invariant.

(* what the token is asked to sign (raw RSA: full-modulus-length EMSA-PKCS1-v1_5 of the matching digest) *)
Theorem C01_token_input_raw_rsa : forall H key data alg h oid r,
  truthy (pk_hash_hsm key) = false -> digestinfo alg = Some (h, oid) -> pk_pub key <> None ->
  rsa_decode (pk_pubraw key) = OK r ->
  format_data_for_signing H key data alg = OK (CKM_RSA_X_509, emsa_pkcs1_v15 (rsa_bits r / 8) (oid ++ H h data)).
Proof. exact token_input_raw_rsa. Qed.
Print Assumptions C01_token_input_raw_rsa.

Theorem C01_token_input_hash_on_token : forall H key data alg m,
  truthy (pk_hash_hsm key) = true -> mech_hash_on_hsm alg = Some m -> m <> CKM_EDDSA ->
  format_data_for_signing H key data alg = OK (m, data).
Proof. exact token_input_hash_on_token. Qed.
Print Assumptions C01_token_input_hash_on_token.

Theorem C01_token_input_raw_ecdsa : forall H key data alg,
  truthy (pk_hash_hsm key) = false -> alg = ECDSAP256SHA256 \/ alg = ECDSAP384SHA384 ->
  format_data_for_signing H key data alg = OK (CKM_ECDSA, H (if alg =? ECDSAP256SHA256 then 256 else 384) data).
Proof. exact token_input_raw_ecdsa. Qed.
Print Assumptions C01_token_input_raw_ecdsa.

Theorem C01_gen_mechanism_tables :
  Gen.Hsm.mech_hash_on_hsm = table_of mech_hash_on_hsm /\ Gen.Hsm.mech_raw = table_of mech_raw /\
  Gen.Hsm.mech_table_guard = "key.hash_using_hsm"%string.
Proof. exact gen_mechanism_tables. Qed.
Print Assumptions C01_gen_mechanism_tables.
