(* C02 - The SKR contains exactly what the KSR and the signing schema dictate. *)
From Coq Require Import String.
From KV Require Import Base.Prelude Base.Exn Base.Bytes Model.Data Model.Wire Model.KsrPolicy Model.Token Model.Sign
  Proofs.WireProofs.

Theorem C02_as_revoked_only_bit7 : forall k k',
  as_revoked k = OK k' ->
  k_flags k' = Z.lor (k_flags k) 128 /\
  (forall i, i <> 7 -> Z.testbit (k_flags k') i = Z.testbit (k_flags k) i) /\
  Z.testbit (k_flags k') 7 = true /\
  k_id k' = k_id k /\ k_ttl k' = k_ttl k /\ k_proto k' = k_proto k /\ k_alg k' = k_alg k /\
  k_pubtxt k' = k_pubtxt k /\ k_pub k' = k_pub k /\
  calculate_key_tag k' = OK (k_tag k').
Proof. exact as_revoked_only_bit7. Qed.
Print Assumptions C02_as_revoked_only_bit7.
