(* C02 - The SKR contains exactly what the KSR and the signing schema dictate. *)
From Coq Require Import String.
From KV Require Import Base.Prelude Base.Exn Base.Bytes Model.Data Model.Wire Model.KsrPolicy Model.Token Model.Sign
  Proofs.WireProofs Proofs.SignProofs Proofs.SignExact Proofs.SignAll Model.Chain Model.History Proofs.HistoryProofs.
From KV Require Gen.Wire Gen.Policy.

Theorem C02_response_bundle_facts : forall H token_sign verify ds_hex i b schema ms ttl sn kks validate rb,
  sign_bundle H token_sign verify ds_hex i b schema ms ttl sn kks validate = OK rb ->
  b_id rb = b_id b /\ b_inc rb = b_inc b /\ b_exp rb = b_exp b /\
  kts_inv ttl (b_keys rb) /\
  (forall z, In z (b_keys b) -> exists x, In x (b_keys rb) /\ k_pubtxt x = k_pubtxt z) /\
  alg_set (map k_alg (b_keys b)) = alg_set (map s_alg (b_sigs rb)) /\
  (forall s, In s (b_sigs rb) ->
     s_inc s = b_inc b /\ s_exp s = b_exp b /\ s_ttl s = ttl /\ s_ottl s = ttl /\ s_name s = dot /\ s_labels s = 0 /\ s_type s = TYPE_DNSKEY /\
     exists dk, kts_get (s_id s) (b_keys rb) = Some dk /\ s_tag s = k_tag dk) /\
  (validate = true -> forall s, In s (b_sigs rb) ->
     exists key tbs, In key (b_keys rb) /\ k_id key = s_id s /\ rfc4034_signature_data s (b_keys rb) tbs /\
                     verify (k_pubtxt key) (k_alg key) tbs (s_datatxt s) = true).
Proof. exact response_bundle_facts. Qed.
Print Assumptions C02_response_bundle_facts.

Theorem C02_alg_mismatch_refused : forall H token_sign verify ds_hex i b schema ms ttl sn kks validate rb,
  sign_bundle H token_sign verify ds_hex i b schema ms ttl sn kks validate = OK rb ->
  forall a, In a all_algorithms -> (mem a (map k_alg (b_keys b)) = mem a (map s_alg (b_sigs rb))).
Proof. exact alg_mismatch_refused. Qed.
Print Assumptions C02_alg_mismatch_refused.

Theorem C02_every_slot : forall H token_sign verify ds_hex bs i schema ms ttl sn kks validate rbs,
  sign_bundles_from H token_sign verify ds_hex i bs schema ms ttl sn kks validate = OK rbs ->
  Forall2 (fun b rb => exists j, sign_bundle H token_sign verify ds_hex j b schema ms ttl sn kks validate = OK rb) bs rbs.
Proof. exact sign_bundles_all. Qed.
Print Assumptions C02_every_slot.

(* the key set of a response bundle: nothing extra, nothing missing, each public key once *)
Theorem C02_response_keys_exact : forall H token_sign verify ds_hex i b schema ms ttl sn kks validate rb,
  sign_bundle H token_sign verify ds_hex i b schema ms ttl sn kks validate = OK rb ->
  exists act pubs revs sks, lookup_slot i schema = Some act /\
    fetch_keys ds_hex (a_publish act) b ms ttl kks true = OK pubs /\
    fetch_keys ds_hex (a_revoke act) b ms ttl kks true = OK revs /\
    fetch_keys ds_hex (a_sign act) b ms ttl kks false = OK sks /\
    (forall x, In x (b_keys rb) ->
       (exists ck, In ck pubs /\ x = with_ttl ttl (ck_dns ck)) \/
       (exists ck rk, In ck revs /\ as_revoked (ck_dns ck) = OK rk /\ x = with_ttl ttl rk) \/
       (exists ck, In ck sks /\ x = with_ttl ttl (ck_dns ck)) \/
       (exists zk, In zk (b_keys b) /\ x = with_ttl ttl zk)) /\
    (forall ck, In ck pubs -> has_pub (k_pubtxt (ck_dns ck)) (b_keys rb)) /\
    (forall ck, In ck revs -> has_pub (k_pubtxt (ck_dns ck)) (b_keys rb)) /\
    (forall ck, In ck sks -> has_pub (k_pubtxt (ck_dns ck)) (b_keys rb)) /\
    (forall zk, In zk (b_keys b) -> has_pub (k_pubtxt zk) (b_keys rb)) /\
    NoDup (map k_pubtxt (b_keys rb)).
Proof. exact response_keys_exact. Qed.
Print Assumptions C02_response_keys_exact.

(* the signatures of a response bundle: one from every signer of the slot (returned by the token, verified in software), and from nobody else *)
Theorem C02_every_signer_signed : forall H token_sign verify ds_hex i b schema ms ttl sn kks validate rb,
  sign_bundle H token_sign verify ds_hex i b schema ms ttl sn kks validate = OK rb ->
  exists act sks, lookup_slot i schema = Some act /\ fetch_keys ds_hex (a_sign act) b ms ttl kks false = OK sks /\
    forall sk, In sk sks ->
      exists s raw pubtxt, In s (b_sigs rb) /\ s_id s = k_id (ck_dns sk) /\ s_alg s = k_alg (ck_dns sk) /\
        pk_pub (ck_p11 sk) = Some pubtxt /\
        sign_using_p11 H token_sign (ck_p11 sk) raw (s_alg s) = OK (s_datatxt s) /\
        verify pubtxt (s_alg s) raw (s_datatxt s) = true.
Proof. exact every_signer_signed. Qed.
Print Assumptions C02_every_signer_signed.

Theorem C02_every_signature_from_a_signer : forall H token_sign verify ds_hex i b schema ms ttl sn kks validate rb,
  sign_bundle H token_sign verify ds_hex i b schema ms ttl sn kks validate = OK rb ->
  exists act sks, lookup_slot i schema = Some act /\ fetch_keys ds_hex (a_sign act) b ms ttl kks false = OK sks /\
    forall s, In s (b_sigs rb) -> exists sk, In sk sks /\ s_id s = k_id (ck_dns sk) /\ s_alg s = k_alg (ck_dns sk).
Proof. exact every_signature_from_a_signer. Qed.
Print Assumptions C02_every_signature_from_a_signer.

(* the container of keys to sign: TTL overridden, unique by public key *)
Theorem C02_kts_add_invariant : forall ttl keys k, kts_inv ttl keys -> kts_inv ttl (kts_add ttl keys k).
Proof. exact kts_inv_add. Qed.
Print Assumptions C02_kts_add_invariant.
Theorem C02_kts_update_invariant : forall ttl keys k, kts_inv ttl keys -> kts_inv ttl (kts_update ttl keys k).
Proof. exact kts_inv_update. Qed.
Print Assumptions C02_kts_update_invariant.

Theorem C02_as_revoked_only_bit7 : forall k k',
  as_revoked k = OK k' ->
  k_flags k' = Z.lor (k_flags k) 128 /\
  (forall i, i <> 7 -> Z.testbit (k_flags k') i = Z.testbit (k_flags k) i) /\
  Z.testbit (k_flags k') 7 = true /\
  k_id k' = k_id k /\ k_ttl k' = k_ttl k /\ k_proto k' = k_proto k /\ k_alg k' = k_alg k /\
  k_pubtxt k' = k_pubtxt k /\ k_pub k' = k_pub k /\
  calculate_key_tag k' = OK (k_tag k').
Proof. exact as_revoked_only_bit7. Qed.
Print Assumptions C02_as_revoked_only_bit7.

Theorem C02_gen_flags_and_ttl :
  (KV.Gen.Wire.flag_SEP, KV.Gen.Wire.flag_REVOKE, KV.Gen.Wire.flag_ZONE) = (FLAG_SEP, FLAG_REVOKE, FLAG_ZONE) /\ KV.Gen.Policy.ksk_ttl = 172800.
Proof. exact (conj eq_refl eq_refl). Qed.
Print Assumptions C02_gen_flags_and_ttl.

(* the response header (signer.create_skr): the request's id, serial, domain and ZSK policy are echoed, the KSK policy states the configured
   periods, and the bundles are those of sign_bundles, one per request bundle *)
Theorem C02_response_header : forall Hh token_sign verify ds_hex (c : Config) (st : Step) ns,
  create_skr Hh token_sign verify ds_hex c st = OK ns ->
  rs_id ns = rq_id (s_ksr st) /\ rs_serial ns = rq_serial (s_ksr st) /\ rs_domain ns = rq_domain (s_ksr st) /\ rs_zsk ns = rq_zsk (s_ksr st) /\
  (sp_publish_safety (rs_ksk ns), sp_retire_safety (rs_ksk ns), sp_max_validity (rs_ksk ns), sp_min_validity (rs_ksk ns), sp_max_overlap (rs_ksk ns), sp_min_overlap (rs_ksk ns))
    = (sp_publish_safety (c_ksk c), sp_retire_safety (c_ksk c), sp_max_validity (c_ksk c), sp_min_validity (c_ksk c), sp_max_overlap (c_ksk c), sp_min_overlap (c_ksk c)) /\
  sign_bundles Hh token_sign verify ds_hex (s_ksr st) (s_schema st) (s_ms st) (c_ttl c) (c_sn c) (c_kks c) (c_validate c) = OK (rs_bundles ns) /\
  length (rs_bundles ns) = length (rq_bundles (s_ksr st)).
Proof. exact create_skr_header. Qed.
Print Assumptions C02_response_header.

Theorem C02_gen_create_skr :
  KV.Gen.Policy.create_skr_response_fields =
    [("id", "request.id"); ("serial", "request.serial"); ("domain", "request.domain"); ("bundles", "list(bundles)");
     ("ksk_policy", "_ksk_signature_policy(config.ksk_policy, bundles)"); ("zsk_policy", "request.zsk_policy"); ("timestamp", "None")]%string /\
  KV.Gen.Policy.create_skr_assignments = ["bundles = sign_bundles(request, schema, p11modules, config.ksk_policy, config)"]%string /\
  KV.Gen.Policy.ksk_signature_policy_returns = ["ksk_policy.signature_policy.replace(algorithms=algorithms)"]%string.
Proof. repeat split; reflexivity. Qed.
Print Assumptions C02_gen_create_skr.
