(* C03 - All-or-nothing: failed check, token fault or declined confirmation yields no SKR. *)
From Coq Require Import String.
From KV Require Import Base.Prelude Base.Exn Base.Bytes Model.Data Model.Wire Model.KsrPolicy Model.Token Model.Sign Model.Keymaster Model.Pipeline
  Proofs.PipelineProofs Proofs.SignAll Proofs.Bridge03.
From KV Require Gen.Pipeline.

Theorem C03_write_only_after_everything : forall e, In SWrite (fst (run e)) <-> all_good e = true.
Proof. exact write_only_after_everything. Qed.
Print Assumptions C03_write_only_after_everything.

Theorem C03_true_iff_written : forall e, snd (run e) = RTrue <-> all_good e = true /\ okb (e_write e) = true.
Proof. exact true_iff_written. Qed.
Print Assumptions C03_true_iff_written.

Theorem C03_sign_only_after_confirmation : forall e, In SSign (fst (run e)) <-> pre_sign e = true.
Proof. exact sign_only_after_confirmation. Qed.
Print Assumptions C03_sign_only_after_confirmation.

Theorem C03_early_failure_no_private_key_operation : forall e,
  pre_sign e = false -> ~ In SSign (fst (run e)) /\ ~ In SWrite (fst (run e)) /\ snd (run e) <> RTrue.
Proof. exact early_failure_no_private_key_operation. Qed.
Print Assumptions C03_early_failure_no_private_key_operation.

Theorem C03_failure_is_reported : forall e, all_good e = false -> exit_status (snd (run e)) <> 0 /\ ~ In SWrite (fst (run e)).
Proof. exact failure_is_reported. Qed.
Print Assumptions C03_failure_is_reported.

Theorem C03_fixed_order : forall e, subseq (fst (run e)) canonical.
Proof. exact fixed_order. Qed.
Print Assumptions C03_fixed_order.

Theorem C03_exit_zero_iff_success : forall r, exit_status r = 0 <-> r = RTrue.
Proof. exact exit_zero_iff_success. Qed.
Print Assumptions C03_exit_zero_iff_success.

Theorem C03_confirmation_is_exact : forall e, e_force e = false -> confirmed e = true -> strip_newlines (e_answer e) = [89; 101; 115].
Proof. exact confirmation_is_exact. Qed.
Print Assumptions C03_confirmation_is_exact.

(* inside the signing stage: a response bundle exists only if every signer of the slot produced a signature that the token returned and software verified *)
Theorem C03_every_signer_signed : forall H token_sign verify ds_hex i b schema ms ttl sn kks validate rb,
  sign_bundle H token_sign verify ds_hex i b schema ms ttl sn kks validate = OK rb ->
  exists act sks, lookup_slot i schema = Some act /\ fetch_keys ds_hex (a_sign act) b ms ttl kks false = OK sks /\
    forall sk, In sk sks ->
      exists s raw pubtxt, In s (b_sigs rb) /\ s_id s = k_id (ck_dns sk) /\ s_alg s = k_alg (ck_dns sk) /\
        pk_pub (ck_p11 sk) = Some pubtxt /\
        sign_using_p11 H token_sign (ck_p11 sk) raw (s_alg s) = OK (s_datatxt s) /\
        verify pubtxt (s_alg s) raw (s_datatxt s) = true.
Proof. exact every_signer_signed. Qed.
Print Assumptions C03_every_signer_signed.

(* tie to the source *)
Theorem C03_stage_order_is_the_sources :
  Gen.Pipeline.ksrsigner_stages = (flat_map marker (map st_stage (steps some_env)) ++ ["return True"%string])%list.
Proof. exact gen_stage_order. Qed.
Print Assumptions C03_stage_order_is_the_sources.
