(* C04 - A KSK signs only inside its validity window and only if it is the configured key.
   H, token_sign, verify, ds_hex are parameters (oracles) of every theorem. *)
From Coq Require Import String.
From KV Require Import Base.Prelude Base.Exn Base.Bytes Model.Data Model.Wire Model.KsrPolicy Model.Token Model.Sign
  Proofs.TokenProofs Proofs.SignProofs.

(* lemmas proved inside a Section are generalised over the section's oracle variables even where unused:
   instantiate the unused ones with dummies *)
Definition dH : Z -> list Z -> list Z := fun _ _ => [].
Definition dT : P11Key -> Z -> list Z -> res text := fun _ _ _ => Raise 0.
Definition dV : text -> Z -> list Z -> text -> bool := fun _ _ _ _ => false.
Definition dD : list Z -> text := fun _ => [].

Theorem C04_used_key_in_window : forall ksk ms ttl b public ck,
  load_pkcs11_key ksk ms ttl b public = OK (Some ck) -> in_window ksk b.
Proof. exact (used_key_in_window dH dT dV). Qed.
Print Assumptions C04_used_key_in_window.

Theorem C04_outside_window_refused : forall ksk ms ttl b public,
  ~ in_window ksk b -> load_pkcs11_key ksk ms ttl b public = Raise KeyUsagePolicy_Violation.
Proof. exact (outside_window_refused dH dT dV). Qed.
Print Assumptions C04_outside_window_refused.

Theorem C04_window_boundary_inclusive : forall ksk b,
  kk_valid_from ksk = b_inc b -> kk_valid_until ksk = Some (b_exp b) -> in_window ksk b.
Proof. exact window_boundary_inclusive. Qed.
Print Assumptions C04_window_boundary_inclusive.

Theorem C04_used_key_matches_config : forall ksk ms ttl b public ck,
  load_pkcs11_key ksk ms ttl b public = OK (Some ck) ->
  exists pubtxt, pk_pub (ck_p11 ck) = Some pubtxt /\ k_pubtxt (ck_dns ck) = pubtxt /\ k_pub (ck_dns ck) = pk_pubraw (ck_p11 ck) /\
    k_id (ck_dns ck) = kk_label ksk /\ k_alg (ck_dns ck) = kk_alg ksk /\ k_flags (ck_dns ck) = 257 /\ k_ttl (ck_dns ck) = ttl /\
    calculate_key_tag (ck_dns ck) = OK (k_tag (ck_dns ck)) /\
    ((pk_ktype (ck_p11 ck) = CKK_RSA /\ is_rsa (kk_alg ksk) = true /\
       exists r, rsa_decode (pk_pubraw (ck_p11 ck)) = OK r /\ kk_rsa_size ksk = Some (rsa_bits r) /\ kk_rsa_exp ksk = Some (rsa_e r)) \/
     (pk_ktype (ck_p11 ck) = CKK_EC /\ (is_ecdsa (kk_alg ksk) = true \/ is_eddsa (kk_alg ksk) = true))).
Proof. exact (used_key_matches_config dH dT dV dD). Qed.
Print Assumptions C04_used_key_matches_config.

Theorem C04_identity_checked : forall ds_hex ksk dns,
  validate_dnskey_matches_ksk ds_hex ksk dns = OK tt ->
  (forall ds, kk_ds ksk = Some ds -> exists pre, ds_preimage dot dns = OK pre /\ ds = ds_hex pre) /\
  (forall t, kk_tag ksk = Some t -> k_tag dns = t).
Proof. exact (identity_checked dH dT dV). Qed.
Print Assumptions C04_identity_checked.

Theorem C04_missing_key_stops : forall ds_hex n rest b ms ttl kks public ksk,
  lookup_name n kks = Some ksk -> load_pkcs11_key ksk ms ttl b public = OK None ->
  fetch_keys ds_hex (n :: rest) b ms ttl kks public = Raise ConfigurationError.
Proof. exact missing_key_stops. Qed.
Print Assumptions C04_missing_key_stops.

(* every key used in a slot (publish / revoke / sign) went through window, configuration and identity checks *)
Theorem C04_fetched_keys_checked : forall ds_hex names b ms ttl kks public cks,
  fetch_keys ds_hex names b ms ttl kks public = OK cks ->
  Forall2 (fun n ck => exists ksk, lookup_name n kks = Some ksk /\ load_pkcs11_key ksk ms ttl b public = OK (Some ck) /\
                                   validate_dnskey_matches_ksk ds_hex ksk (ck_dns ck) = OK tt) names cks.
Proof. exact fetched_keys_checked. Qed.
Print Assumptions C04_fetched_keys_checked.

(* two objects under the label in the slot that is searched: an error (from C15) *)
Theorem C04_duplicate_is_error : forall mi pre s post label cls hh o1 o2 more,
  (forall s', In s' pre -> matches label cls s' = []) -> matches label cls s = o1 :: o2 :: more ->
  find_in_slots mi (pre ++ s :: post) label cls hh = Raise RuntimeError.
Proof. exact duplicate_is_error. Qed.
Print Assumptions C04_duplicate_is_error.
