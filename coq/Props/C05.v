(* C05 - KSR timing rules accept exactly the documented region, bounds inclusive. *)
From Coq Require Import String.
From KV Require Import Base.Prelude Base.Exn Base.Bytes Model.Data Model.KsrPolicy Spec.KsrRules
  Proofs.KsrTimingProofs Proofs.Bridge05.

Theorem C05_timing_iff : forall now p r, timing_checks now p r = OK tt <-> timing_spec now p r.
Proof. exact timing_iff. Qed.
Print Assumptions C05_timing_iff.

Theorem C05_flag_off_never_rejects : forall now p r,
  (p_check_cycle_length p = false -> check_cycle_durations p r = OK tt) /\
  (p_check_bundle_overlap p = false -> check_bundle_overlaps p r = OK tt) /\
  (p_sig_validity_match p = false -> check_signature_validity p r = OK tt) /\
  (p_check_horizon p = false -> check_signature_horizon now p r = OK tt) /\
  (p_check_bundle_intervals p = false -> check_bundle_intervals p r = OK tt).
Proof. exact flag_off_never_rejects. Qed.
Print Assumptions C05_flag_off_never_rejects.

Theorem C05_enabled_rule_not_masked : forall now p r,
  timing_checks now p r = OK tt ->
  (p_check_cycle_length p = true -> cycle_ok p (rq_bundles r)) /\
  (p_check_bundle_overlap p = true -> Forall (overlap_ok (rq_zsk r)) (adjacent (rq_bundles r))) /\
  (p_sig_validity_match p = true -> Forall (validity_ok (rq_zsk r)) (rq_bundles r)) /\
  (p_check_horizon p = true -> Forall (horizon_ok now p) (rq_bundles r)) /\
  (p_check_bundle_intervals p = true -> Forall (interval_ok p) (adjacent (rq_bundles r))).
Proof. exact enabled_rule_not_masked. Qed.
Print Assumptions C05_enabled_rule_not_masked.

Theorem C05_first_violation_class : forall now p r c,
  timing_checks now p r = Raise c ->
  c = KSR_BUNDLE_COUNT_Violation \/ c = KSR_BUNDLE_CYCLE_DURATION_Violation \/
  c = KSR_POLICY_SIG_OVERLAP_Violation \/ c = KSR_POLICY_SIG_VALIDITY_Violation \/
  c = KSR_POLICY_SIG_HORIZON_Violation \/ c = KSR_PolicyViolation \/
  c = KSR_POLICY_BUNDLE_INTERVAL_Violation.
Proof. exact first_violation_class. Qed.
Print Assumptions C05_first_violation_class.

(* Tie 1: order of the timing checks and the flag guarding each one, as /repo has them now *)
Theorem C05_gen_order :
  Gen.Skeleton.order_validate_request_raw = ["verify_header"; "verify_bundles"; "verify_policy"]%string /\
  filter (fun n => existsb (String.eqb n) timing_names) validate_order = timing_names.
Proof. exact gen_timing_order. Qed.
Print Assumptions C05_gen_order.
Theorem C05_gen_guards :
  guard_row "check_bundle_count" = Some (""%string, -1, 0) /\
  guard_row "check_cycle_durations" = Some ("check_cycle_length"%string, 0, 1) /\
  guard_row "check_bundle_overlaps" = Some ("check_bundle_overlap"%string, 0, 1) /\
  guard_row "check_signature_validity" = Some ("signature_validity_match_zsk_policy"%string, 0, 1) /\
  guard_row "check_signature_horizon" = Some ("signature_check_expire_horizon"%string, 0, 1) /\
  guard_row "check_bundle_intervals" = Some ("check_bundle_intervals"%string, 0, 1).
Proof. exact gen_timing_guards. Qed.
Print Assumptions C05_gen_guards.

(* the timing checks statement by statement as read from /repo (texts for messages and loops that only feed the debug listing left out): every bundle is visited, differences are signed, bounds are compared with < and > (inclusive bounds), the cycle is last inception minus first - what Model.KsrPolicy transcribes *)
Theorem C05_gen_timing_statements :
  Gen.Skeleton.check_signature_validity_shape =
    ["if not policy.signature_validity_match_zsk_policy: return"%string;"for bundle in request.bundles: validity = bundle.expiration - bundle.inception ; if validity < request.zsk_policy.min_signature_validity: raise KSR_POLICY_SIG_VALIDITY_Violation ; if validity > request.zsk_policy.max_signature_validity: raise KSR_POLICY_SIG_VALIDITY_Violation"%string;"_num_bundles = len(request.bundles)"%string] /\
  Gen.Skeleton.check_bundle_overlaps_shape =
    ["if not policy.check_bundle_overlap: return"%string;"for i in range(1, len(request.bundles)): previous = request.bundles[i - 1] ; this = request.bundles[i] ; if this.inception > previous.expiration: raise KSR_POLICY_SIG_OVERLAP_Violation ; overlap = previous.expiration - this.inception ; if overlap < request.zsk_policy.min_validity_overlap: raise KSR_POLICY_SIG_OVERLAP_Violation ; if overlap > request.zsk_policy.max_validity_overlap: raise KSR_POLICY_SIG_OVERLAP_Violation"%string] /\
  Gen.Skeleton.check_bundle_intervals_shape =
    ["if not policy.check_bundle_intervals: return"%string;"for num in range(1, len(request.bundles)): interval = request.bundles[num].inception - request.bundles[num - 1].inception ; if interval < policy.min_bundle_interval: bundle = request.bundles[num] ; raise KSR_POLICY_BUNDLE_INTERVAL_Violation ; if interval > policy.max_bundle_interval: bundle = request.bundles[num] ; raise KSR_POLICY_BUNDLE_INTERVAL_Violation"%string] /\
  Gen.Skeleton.check_cycle_durations_shape =
    ["if not policy.check_cycle_length: return"%string;"if not request.bundles: return"%string;"cycle_inception_length = request.bundles[-1].inception - request.bundles[0].inception"%string;"if cycle_inception_length < policy.min_cycle_inception_length: raise KSR_BUNDLE_CYCLE_DURATION_Violation"%string;"if cycle_inception_length > policy.max_cycle_inception_length: raise KSR_BUNDLE_CYCLE_DURATION_Violation"%string] /\
  Gen.Skeleton.check_bundle_count_shape =
    ["_num_bundles = len(request.bundles)"%string;"if _num_bundles != policy.num_bundles: raise KSR_BUNDLE_COUNT_Violation"%string].
Proof. exact gen_timing_shapes. Qed.
Print Assumptions C05_gen_timing_statements.
