(* C06 - KSR key, algorithm and header rules accept exactly the documented region. *)
From Coq Require Import String.
From KV Require Import Base.Prelude Base.Exn Base.Bytes Model.Data Model.Wire Model.KsrPolicy Spec.ChainRules Spec.KeyRules
  Proofs.KeyRulesProofs Proofs.Bridge05 Proofs.Bridge06.

Theorem C06_keys_header_iff : forall p r,
  Forall wf_alg (sp_algs (rq_zsk r)) -> dec_fun (all_keys r) ->
  (keys_header_checks p r = OK tt <-> keys_header_spec p r).
Proof. exact keys_header_iff. Qed.
Print Assumptions C06_keys_header_iff.

Theorem C06_identifier_denotes_one_key : forall p r a b,
  Forall wf_alg (sp_algs (rq_zsk r)) -> dec_fun (all_keys r) -> p_keys_match_zsk_policy p = true ->
  keys_header_checks p r = OK tt -> In a (all_keys r) -> In b (all_keys r) -> k_id a = k_id b -> a = b.
Proof. exact identifier_denotes_one_key. Qed.
Print Assumptions C06_identifier_denotes_one_key.

(* a first-seen key passes exactly when its parameters match a declared algorithm, flags are 256
   and the key tag is the computed one *)
Theorem C06_check_new_key_iff : forall p algs k, Forall wf_alg algs ->
  (check_new_key p algs k = OK tt <-> key_good p algs k).
Proof. exact check_new_key_iff. Qed.
Print Assumptions C06_check_new_key_iff.

Theorem C06_gen_tables :
  Gen.Wire.deprecated_algorithms = deprecated_algorithms /\ Gen.Wire.supported_algorithms = supported_algorithms /\
  Gen.Wire.flag_ZONE = FLAG_ZONE /\
  (forall a, In a all_algorithms ->
     is_rsa a = mem a Gen.Wire.rsa_algorithms /\ is_ecdsa a = mem a Gen.Wire.ecdsa_algorithms /\
     is_eddsa a = mem a Gen.Wire.eddsa_algorithms).
Proof. exact gen_c06_tables. Qed.
Print Assumptions C06_gen_tables.

Theorem C06_gen_guards :
  guard_row "check_domain" = Some (""%string, -1, 0) /\
  guard_row "check_unique_ids" = Some (""%string, -1, 0) /\
  guard_row "check_keys_match_zsk_policy" = Some ("keys_match_zsk_policy"%string, 0, 1) /\
  guard_row "check_keys_in_bundles" = Some ("check_keys_match_ksk_operator_policy"%string, 0, 1) /\
  guard_row "check_zsk_policy_algorithm" = Some ("signature_algorithms_match_zsk_policy"%string, 1, 1) /\
  filter (fun n => existsb (String.eqb n) c06_names) validate_order = c06_names.
Proof. exact gen_c06_guards. Qed.
Print Assumptions C06_gen_guards.

(* bundle ids are collected over ALL bundles (a dictionary of the ids seen so far), not compared between neighbours *)
Theorem C06_gen_unique_ids_statements :
  Gen.Skeleton.check_unique_ids_shape =
    ["seen = {}"%string;"for bundle in request.bundles: if bundle.id in seen: raise KSR_BUNDLE_UNIQUE_Violation ; seen[bundle.id] = 1"%string;"_num_bundles = len(request.bundles)"%string;"return"%string].
Proof. exact gen_unique_ids_shape. Qed.
Print Assumptions C06_gen_unique_ids_statements.
