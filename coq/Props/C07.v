(* C07 - Proof of possession: every ZSK of an accepted KSR signed the whole key set. *)
From Coq Require Import String Sorting.Permutation.
From KV Require Import Base.Prelude Base.Exn Base.Bytes Model.Data Model.Wire Model.KsrPolicy Spec.KeyRules
  Proofs.WireProofs Proofs.PopProofs Proofs.Bridge05 Proofs.Bridge06.

(* [verify] is the crypto library's verdict: a parameter of every theorem (oracle, not axiom) *)
Theorem C07_pop_iff : forall verify b, pop_bundle verify b = OK tt <-> pop_spec verify b.
Proof. exact pop_iff. Qed.
Print Assumptions C07_pop_iff.

Theorem C07_pop_uses_full_set : forall verify b, pop_bundle verify b = OK tt ->
  forall s, In s (b_sigs b) ->
    exists key tbs, In key (b_keys b) /\ k_id key = s_id s /\
      rfc4034_signature_data s (b_keys b) tbs /\ verify key s tbs = true.
Proof. exact pop_uses_full_set. Qed.
Print Assumptions C07_pop_uses_full_set.

Theorem C07_pop_order_independent : forall verify b b',
  Permutation (b_keys b) (b_keys b') -> Permutation (b_sigs b) (b_sigs b') ->
  (pop_bundle verify b = OK tt <-> pop_bundle verify b' = OK tt).
Proof. exact pop_order_independent. Qed.
Print Assumptions C07_pop_order_independent.

Theorem C07_missing_signature_rejected : forall verify b k,
  In k (b_keys b) -> (forall s, In s (b_sigs b) -> s_id s <> k_id k) -> pop_bundle verify b <> OK tt.
Proof. exact pop_missing_signature_rejected. Qed.
Print Assumptions C07_missing_signature_rejected.

Theorem C07_bad_signature_rejected : forall verify b s,
  In s (b_sigs b) ->
  (forall key tbs, In key (b_keys b) -> k_id key = s_id s -> make_raw_rrsig s (b_keys b) = OK tbs -> verify key s tbs = false) ->
  pop_bundle verify b <> OK tt.
Proof. exact pop_bad_signature_rejected. Qed.
Print Assumptions C07_bad_signature_rejected.

Theorem C07_check_pop_iff : forall verify p r,
  check_proof_of_possession verify p r = OK tt <-> (p_validate_signatures p = true -> Forall (pop_spec verify) (rq_bundles r)).
Proof. exact check_pop_iff. Qed.
Print Assumptions C07_check_pop_iff.

Theorem C07_gen_guard : guard_row "check_proof_of_possession" = Some ("validate_signatures"%string, 0, 1).
Proof. exact gen_c07_guard. Qed.
Print Assumptions C07_gen_guard.
