(* C08 - A KSR is processed only if it chains to the previous SKR and that SKR is ours. *)
From Coq Require Import String.
From KV Require Import Base.Prelude Base.Exn Base.Bytes Model.Data Model.KsrPolicy Model.Chain Spec.ChainRules
  Proofs.ChainProofs Proofs.Bridge05 Proofs.Bridge08.

Theorem C08_chain_iff : forall p ksr skr token,
  check_skr_and_ksr p ksr skr token = OK tt <-> chain_spec p ksr skr token.
Proof. exact chain_iff. Qed.
Print Assumptions C08_chain_iff.

Theorem C08_forged_prev_refused : forall p ksr skr lookup lastb s key tokpub,
  p_check_chain_keys_in_hsm p = true -> last_opt (rs_bundles skr) = Some lastb -> In s (b_sigs lastb) ->
  find_key_by_id (s_id s) (b_keys lastb) = Some key -> lookup (s_id s) = OK (Some (Some tokpub)) ->
  k_pubtxt key <> tokpub -> check_skr_and_ksr p ksr skr (Some lookup) <> OK tt.
Proof. exact forged_prev_refused. Qed.
Print Assumptions C08_forged_prev_refused.

Theorem C08_gen_order : 
  Gen.Skeleton.order_check_skr_and_ksr = ["check_unique_ids"; "check_chain"; "check_last_skr_key_present"]%string /\
  Gen.Skeleton.order_check_unique_ids = ["check_unique_request"; "check_unique_bundle_ids"]%string /\
  Gen.Skeleton.order_check_chain = ["check_chain_keys"; "check_chain_overlap"]%string.
Proof. exact gen_chain_order. Qed.
Print Assumptions C08_gen_order.

Theorem C08_gen_guards :
  guard_row "check_unique_request" = Some (""%string, -1, 0) /\
  guard_row "check_unique_bundle_ids" = Some (""%string, -1, 0) /\
  guard_row "check_chain_keys" = Some ("check_chain_keys"%string, 0, 1) /\
  guard_row "check_chain_overlap" = Some ("check_chain_overlap"%string, 0, 1) /\
  guard_row "check_last_skr_key_present" = Some ("check_chain_keys_in_hsm"%string, 1, 1).
Proof. exact gen_chain_guards. Qed.
Print Assumptions C08_gen_guards.

(* "a previous SKR whose own signatures do not verify is refused": the loader's validation visits every bundle *)
Theorem C08_gen_response_validation :
  Gen.Skeleton.validate_response_shape =
    ["if len(response.bundles) != policy.num_bundles: raise PolicyViolation"%string; "for bundle in response.bundles: check_valid_signatures(bundle, policy)"%string; "return True"%string] /\
  Gen.Skeleton.check_valid_signatures_shape =
    ["if not policy.validate_signatures: return"%string;
     "try: if not validate_signatures(bundle): raise InvalidSignatureViolation except InvalidSignature: raise InvalidSignatureViolation"%string].
Proof. exact gen_response_validation. Qed.
Print Assumptions C08_gen_response_validation.

Theorem C08_gen_chain_overlap :
  Gen.Skeleton.check_chain_overlap_shape =
    ["if not policy.check_chain_overlap: return"%string; "previous = last_skr.bundles[-1]"%string; "ksr_first = ksr.bundles[0]"%string;
     "overlap = previous.expiration - ksr_first.inception"%string;
     "if overlap < ksr.zsk_policy.min_validity_overlap: raise KSR_CHAIN_OVERLAP_Violation"%string;
     "if overlap > ksr.zsk_policy.max_validity_overlap: raise KSR_CHAIN_OVERLAP_Violation"%string].
Proof. exact gen_chain_overlap. Qed.
Print Assumptions C08_gen_chain_overlap.
