(* C09 - A new SKR is released only if KSK publish and retire safety hold at the boundary. *)
From Coq Require Import String.
From KV Require Import Base.Prelude Base.Exn Base.Bytes Model.Data Model.KsrPolicy Model.Chain Spec.ChainRules
  Proofs.ChainProofs Proofs.Bridge05 Proofs.Bridge08 Model.Keymaster Model.Pipeline Proofs.PipelineProofs Proofs.ReleaseSafety Proofs.Bridge03.
From KV Require Gen.Pipeline.

Theorem C09_safety_iff : forall p last_skr new_skr,
  check_last_skr_and_new_skr p last_skr new_skr = OK tt <-> safety_spec p last_skr new_skr.
Proof. exact safety_iff. Qed.
Print Assumptions C09_safety_iff.

Theorem C09_each_half_only_own_flag : forall p last_skr new_skr,
  (p_check_publish_safety p = false -> check_publish_safety p last_skr new_skr = OK tt) /\
  (p_check_retire_safety p = false -> check_retire_safety p last_skr new_skr = OK tt).
Proof. exact each_half_only_own_flag. Qed.
Print Assumptions C09_each_half_only_own_flag.

Theorem C09_gen_order_guards :
  Gen.Skeleton.order_check_last_skr_and_new_skr = ["check_publish_safety"; "check_retire_safety"]%string /\
  guard_row "check_publish_safety" = Some ("check_keys_publish_safety"%string, 0, 1) /\
  guard_row "check_retire_safety" = Some ("check_keys_retire_safety"%string, 0, 1).
Proof. exact gen_safety_order_guards. Qed.
Print Assumptions C09_gen_order_guards.

(* the ceremony: the write stage of ksrsigner is reached only if the safety rules hold for (previous SKR, freshly signed SKR) *)
Theorem C09_released_only_if_safe : forall e p last_skr new_skr,
  safety_is e p last_skr new_skr -> In SWrite (fst (run e)) -> safety_spec p last_skr new_skr.
Proof. exact released_only_if_safe. Qed.
Print Assumptions C09_released_only_if_safe.

Theorem C09_unsafe_is_not_released : forall e p last_skr new_skr,
  safety_is e p last_skr new_skr -> ~ safety_spec p last_skr new_skr ->
  ~ In SWrite (fst (run e)) /\ snd (run e) <> RTrue /\ exit_status (snd (run e)) <> 0.
Proof. exact unsafe_is_not_released. Qed.
Print Assumptions C09_unsafe_is_not_released.

Theorem C09_stage_order_is_the_sources :
  Gen.Pipeline.ksrsigner_stages = (flat_map marker (map st_stage (steps some_env)) ++ ["return True"%string])%list.
Proof. exact gen_stage_order. Qed.
Print Assumptions C09_stage_order_is_the_sources.

(* which key is a KSK, a ZSK, revoked: single bits of the flags (a revoked KSK, flags 385, is a KSK) *)
Theorem C09_gen_key_kinds :
  Gen.Skeleton.is_zsk_key_shape =
    ["return not is_sep_key(key)"%string] /\
  Gen.Skeleton.is_sep_key_shape =
    ["return bool(key.flags & FlagsDNSKEY.SEP.value)"%string] /\
  Gen.Skeleton.is_revoked_key_shape =
    ["return bool(key.flags & FlagsDNSKEY.REVOKE.value)"%string].
Proof. exact gen_key_kind_shapes. Qed.
Print Assumptions C09_gen_key_kinds.
