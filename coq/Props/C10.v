(* C10 - Over successive ceremonies accepted SKRs form one unbroken, authentic timeline. *)
From KV Require Import Base.Prelude Base.Exn Base.Bytes Model.Data Model.Wire Model.KsrPolicy Model.Chain Model.Token Model.Sign Model.History
  Model.SchemaTable Spec.ChainRules Proofs.HistoryProofs Proofs.SchemaTableProofs.
From Coq Require Import String.
From KV Require Gen.Schemas.

(* one step: whatever a ceremony accepts on top of an accepted SKR is linked to it *)
Theorem C10_ceremony_link : forall H token_sign verify ds_hex c a st b,
  ceremony H token_sign verify ds_hex c (Some a) st = OK b -> good_link (c_req c) a b.
Proof. exact ceremony_link. Qed.
Print Assumptions C10_ceremony_link.

(* what is emitted is acceptable to the loader of the next ceremony (when the two bundle counts are configured equal) *)
Theorem C10_emitted_skr_reloads : forall H token_sign verify ds_hex c prev st b,
  c_resp_num c = p_num_bundles (c_req c) -> ceremony H token_sign verify ds_hex c prev st = OK b -> reload verify c b = OK tt.
Proof. exact emitted_skr_reloads. Qed.
Print Assumptions C10_emitted_skr_reloads.

(* histories of any length, any schemas, any KSRs, any token contents: every accepted SKR is linked to the accepted SKR before it *)
Theorem C10_history_invariant : forall H token_sign verify ds_hex c steps prev,
  linked verify c prev (accepted_from H token_sign verify ds_hex c prev steps).
Proof. exact history_invariant. Qed.
Print Assumptions C10_history_invariant.

Theorem C10_no_gap : forall p a b, good_link p a b -> p_check_chain_overlap p = true -> 0 <= sp_min_overlap (rs_zsk b) ->
  exists lastb first rest, last_opt (rs_bundles a) = Some lastb /\ rs_bundles b = first :: rest /\ b_inc first <= b_exp lastb.
Proof. exact no_gap. Qed.
Print Assumptions C10_no_gap.

Theorem C10_refused_ceremony_keeps_state : forall H token_sign verify ds_hex c prev st rest e,
  ceremony H token_sign verify ds_hex c prev st = Raise e ->
  accepted_from H token_sign verify ds_hex c prev (st :: rest) = accepted_from H token_sign verify ds_hex c prev rest.
Proof. exact refused_ceremony_keeps_state. Qed.
Print Assumptions C10_refused_ceremony_keeps_state.

(* the seven example schemas: which may follow which under the identifier half of the publish / retire rules (rows: previous, columns: next) *)
Theorem C10_example_schema_table :
  map (fun r => (fst r, map snd (snd r))) (table example_window Gen.Schemas.example_schemas) = example_table.
Proof. exact example_schema_table. Qed.
Print Assumptions C10_example_schema_table.

Theorem C10_example_schemas_internally_retire_safe : forallb (fun p => stays_listed (snd p)) Gen.Schemas.example_schemas = true.
Proof. exact example_schemas_internally_retire_safe. Qed.
Print Assumptions C10_example_schemas_internally_retire_safe.
