(* C11 - An emitted SKR reads back identically, fits the schema; no truncation loads.
   Proved: (a) every whole-second policy duration the writer emits is read back exactly (all carries);
   (d) a document cut before the closing tag of its outermost element never parses.
   (e) document level: the element structure the writer spells out (Model.SkrDoc.skr_val, built with the reader's own _store_element)
   is read by the loader (response_of_val) as the same response - every bundle, key, signature, both policies, all numbers, times and
   durations - for every well-formed response of any size (C11_skr_roundtrip).
   (f) file level: the loader applied to the TEXT the writer lays out returns the response that was written (C11_skr_file_roundtrip; the
   layout model skr_text is compared with the real writer's output per run), and no two different durations or instants share a written
   form (C11_duration_text_injective, C11_timestamp_text_injective), so a value that reads back equal was written equal.
   Modelled rather than proved: the writer's f-strings themselves (tied by Bridge11Doc shapes and by correspondence:
   skr_to_xml -> parse_ksr / response_from_xml on generated responses, ElementTree, schema checker, every prefix). *)
From Coq Require Import String.
From KV Require Import Base.Prelude Base.Exn Base.Bytes Model.Data Model.Duration Model.Xml
  Proofs.DurationProofs Proofs.XmlProofs Proofs.Bridge11.

Theorem C11_duration_roundtrip : forall n, 0 <= n -> duration_to_timedelta (timedelta_to_duration n) = OK n.
Proof. exact duration_roundtrip. Qed.
Print Assumptions C11_duration_roundtrip.

Theorem C11_truncated_fails : forall uni_word doc name raw tag_end,
  parse_tag uni_word (strip doc) = OK (name, raw, tag_end) ->
  text_eqb (slice (strip doc) (tag_end - 2) tag_end) [SLASH; GT] = false ->
  index_from ([LT; SLASH] ++ name ++ [GT])%list (strip doc) tag_end = None ->
  forall d, parse uni_word doc <> Done d.
Proof. exact truncated_fails. Qed.
Print Assumptions C11_truncated_fails.

Theorem C11_truncated_ksr_fails : forall uni_word doc i name raw tag_end,
  index_from KSR_OPEN doc 0 = Some i ->
  parse_tag uni_word (strip (skipn i doc)) = OK (name, raw, tag_end) ->
  text_eqb (slice (strip (skipn i doc)) (tag_end - 2) tag_end) [SLASH; GT] = false ->
  index_from ([LT; SLASH] ++ name ++ [GT])%list (strip (skipn i doc)) tag_end = None ->
  forall d, parse_ksr uni_word doc <> Done d.
Proof. exact truncated_ksr_fails. Qed.
Print Assumptions C11_truncated_ksr_fails.

Theorem C11_gen_output_shapes :
  Gen.Output.strftime_format = "%Y-%m-%dT%H:%M:%S+00:00"%string /\
  Gen.Output.format_datetime_expr = "dt.astimezone(timezone.utc).strftime('%Y-%m-%dT%H:%M:%S+00:00')"%string /\
  Gen.Output.timedelta_to_duration_shape =
    ["td.total_seconds() == 0 => return 'PT0S'"; "return 'PT0S'"; "ifexp f'P{td.days}D' if td.days else 'P'";
     "td.seconds => time = 'T' ; _remainder = td.seconds";
     "_remainder > 3600 => time += f'{_remainder // 3600}H' ; _remainder = _remainder % 3600";
     "_remainder > 60 => time += f'{_remainder // 60}M' ; _remainder = _remainder % 60";
     "_remainder => time += f'{_remainder}S'"; "return days + time"]%string /\
  Gen.Output.duration_regex = "^(\d+?)([WDHMS])(.*)"%string /\
  Gen.Output.duration_regex_flags = ["re.DOTALL"]%string /\ Gen.Output.duration_regex_uses = ["_re.match"]%string /\
  Gen.Output.duration_units =
    ["what == 'W' => res += timedelta(days=7 * num)"; "what == 'D' => res += timedelta(days=num)";
     "what == 'H' => res += timedelta(hours=num)"; "what == 'M' => if time_section:";
     "what == 'S' or what == '' => res += timedelta(seconds=num)"]%string /\
  Gen.Output.duration_head_tests = ["not duration"; "not duration.startswith('P')"]%string.
Proof. exact gen_output_shapes. Qed.
Print Assumptions C11_gen_output_shapes.

(* ---- document level ---- *)
From KV Require Import Model.Xml Model.Datetime Model.SkrDoc Proofs.SkrDocProofs Proofs.Bridge11Doc.

Theorem C11_skr_roundtrip : forall b64 r d, wf_response b64 r -> skr_val r = OK d -> response_of_val b64 d = OK (canon_response r).
Proof. exact skr_roundtrip. Qed.
Print Assumptions C11_skr_roundtrip.

Theorem C11_skr_roundtrip_nothing_lost : forall b64 r d b, wf_response b64 r -> skr_val r = OK d -> In b (rs_bundles r) ->
  exists r' b', response_of_val b64 d = OK r' /\ In b' (rs_bundles r') /\ b_id b' = b_id b /\
    (forall k, In k (b_keys b') <-> In k (b_keys b)) /\ b_sigs b' = b_sigs b /\ rs_ksk r' = rs_ksk r /\ rs_zsk r' = rs_zsk r.
Proof. exact skr_roundtrip_keys. Qed.
Print Assumptions C11_skr_roundtrip_nothing_lost.

(* the reader's dictionary: a child name that occurs once yields the child, one that occurs n times its occurrences in document order *)
Theorem C11_store_collects_in_order : forall cs, Forall (fun kv => nl (snd kv)) cs -> forall d0 k, collect (build cs d0) k = (collect d0 k ++ vals_named k cs)%list.
Proof. exact build_collect. Qed.
Print Assumptions C11_store_collects_in_order.

Theorem C11_int_reads_back : forall n, 0 <= n -> py_int (dec n) = Some n.
Proof. exact py_int_dec. Qed.
Print Assumptions C11_int_reads_back.

(* character level: a document in the plain form (which is what the writer emits - checked per run on emitted SKRs) is read by the
   reader as exactly its tree, so the element-tree round trip above (skr_roundtrip) extends to the text of the file *)
From KV Require Import Model.XmlTree Proofs.XmlTreeProofs.
Theorem C11_plain_document_reads_as_its_tree : forall uni_word t, wf t = true -> (height t <= 5)%nat ->
  parse uni_word (ser t) = Done [(tname t, val_of t)].
Proof. exact reader_extracts_tree. Qed.
Print Assumptions C11_plain_document_reads_as_its_tree.

(* the file: for every well-formed response whose identifiers and base64 texts are plain (non-empty attribute values without quotes, '<', '>' or
   line breaks; element texts without '<' and without leading/trailing blanks), the loader applied to the TEXT the writer model lays out
   (skr_text: XML declaration, one element per line, four blanks per level - compared with the real writer's output per run) returns the
   response that was written, keys of each bundle in key-tag order *)
From KV Require Import Model.Shape Model.SkrText Proofs.SkrTextProofs Proofs.SkrOk.
Theorem C11_skr_file_roundtrip : forall uni_word b64 r, wf_response b64 r -> texts_ok r = true ->
  exists d, parse_ksr uni_word (skr_text r) = Done d /\ response_of_val b64 d = OK (canon_response r).
Proof. exact skr_file_roundtrip. Qed.
Print Assumptions C11_skr_file_roundtrip.

Theorem C11_skr_text_reads_as_written : forall uni_word r, shape_ok (skr_shape r) = true ->
  parse_ksr uni_word (skr_text r) = Done [(nKSR, sval (skr_shape r))].
Proof. exact skr_text_reads_as_written. Qed.
Print Assumptions C11_skr_text_reads_as_written.

(* a written form stands for one value only: different durations / instants are never spelled alike *)
From KV Require Import Proofs.DatetimeProofs.
Theorem C11_duration_text_injective : forall a b, 0 <= a -> 0 <= b -> timedelta_to_duration a = timedelta_to_duration b -> a = b.
Proof. exact duration_text_injective. Qed.
Print Assumptions C11_duration_text_injective.

Theorem C11_timestamp_text_injective : forall a b, min_seconds <= a <= max_seconds -> min_seconds <= b <= max_seconds ->
  format_seconds a = format_seconds b -> a = b.
Proof. exact format_seconds_injective. Qed.
Print Assumptions C11_timestamp_text_injective.
