(* C12 - The KSR/SKR reader agrees with a standard XML parser, in any sibling order.
   Proved here: order independence of the bundle ordering and of everything the validation theorems
   quantify up to permutation, and independence of the repetition count in the element store.
   Agreement with a standard parser: reader_extracts_tree - for EVERY document in the plain form (any tree of elements with
   word names, double-quoted non-empty attributes on the start tag's line (any blanks before, between and after them), text without '<', any whitespace between elements,
   self-closing or empty-pair form, any repetition count; no element nested in one of the same name; depth within the reader's
   limit) the reader model returns exactly the tree's data in its documented shape, and anything before the KSR element is
   ignored. The tree's data is what an XML 1.0 parser reports for the same text whenever attribute values and texts contain no '&',
   tab or carriage return (no entities, no attribute-value or line-end normalisation to apply) - a tab in an attribute value is the
   recorded difference (known finding). That the real documents are such trees and that the reader model is the real reader is the correspondence. *)
From Coq Require Import String Sorting.Permutation.
From KV Require Import Base.Prelude Base.Exn Base.Bytes Model.Data Model.KsrPolicy Model.Xml Proofs.LoadProofs Proofs.PopProofs
  Spec.KeyRules Model.XmlTree Proofs.XmlTreeProofs Model.Duration Model.Datetime Proofs.DatetimeProofs.

Theorem C12_bundle_order_independent : forall l l',
  distinct_keys l -> Permutation l l' -> sort_bundles l = sort_bundles l'.
Proof. exact sort_bundles_order_independent. Qed.
Print Assumptions C12_bundle_order_independent.

Theorem C12_repeat_count_irrelevant : forall name (vs : list val) d,
  Forall not_list vs -> vs <> [] -> lookup name d = None ->
  option_map as_list (lookup name (fold_left (fun acc v => store name v acc) vs d)) = Some vs.
Proof. exact repeat_count_irrelevant. Qed.
Print Assumptions C12_repeat_count_irrelevant.

Theorem C12_key_signature_order_independent : forall verify b b',
  Permutation (b_keys b) (b_keys b') -> Permutation (b_sigs b) (b_sigs b') ->
  (pop_bundle verify b = OK tt <-> pop_bundle verify b' = OK tt).
Proof. exact pop_order_independent. Qed.
Print Assumptions C12_key_signature_order_independent.

(* the reader on the plain form: what it returns is the tree (val_of t = the data a standards-conforming parser extracts, in the
   reader's own documented shape: text | dict of children | {attrs, value} | list for repeated names) *)
Theorem C12_reader_extracts_tree : forall uni_word t, wf t = true -> (height t <= 5)%nat ->
  parse uni_word (ser t) = Done [(tname t, val_of t)].
Proof. exact reader_extracts_tree. Qed.
Print Assumptions C12_reader_extracts_tree.

Theorem C12_reader_ignores_prolog : forall uni_word P t,
  (forall rest pos, index_aux KSR_OPEN (P ++ rest) pos = index_aux KSR_OPEN rest (pos + length P)%nat) ->
  (exists n', tname t = [75; 83; 82] ++ n')%list -> wf t = true -> (height t <= 5)%nat ->
  parse_ksr uni_word (P ++ ser t) = Done [(tname t, val_of t)].
Proof. exact reader_ignores_prolog. Qed.
Print Assumptions C12_reader_ignores_prolog.

(* a prolog without '<' (or none) satisfies the premise *)
Theorem C12_prolog_without_lt : forall P, no_lt P = true ->
  forall rest pos, index_aux KSR_OPEN (P ++ rest) pos = index_aux KSR_OPEN rest (pos + length P)%nat.
Proof. intros P H rest pos. apply (index_skip_nolt (fun _ => false) [75; 83; 82] P H). Qed.
Print Assumptions C12_prolog_without_lt.

(* timestamps: the three notations of a UTC instant that KSR and SKR files use (offset-less, "Z", "+00:00") are read as the same instant -
   the one ElementTree + fromisoformat give - for every second of the years 1000..9999; no host time zone enters the reading
   (model: Model.Datetime.read_utc, tied to kskm's parse_datetime by the CStamp cases, which are run under several process time zones) *)
Theorem C12_timestamp_notations : forall s, min_seconds <= s <= max_seconds ->
  read_utc (format_body s) = Some s /\ read_utc (format_body s ++ [90]) = Some s /\ read_utc (format_body s ++ utc_suffix) = Some s.
Proof. exact read_utc_notations. Qed.
Print Assumptions C12_timestamp_notations.

(* the premises are satisfiable: a small document with attributes, repeated names, an empty pair and a self-closing element *)
Example C12_plain_form_example :
  let t := Node [75;83;82] [([32],[105;100],[120]); ([32;32],[100],[46])] [32;9] [10;32]
             [Node [82] [] [] [10] [Leaf [65] [] [] [32] [49;50] [10] [10]; Leaf [65] [([32],[107],[118])] [32] [] [] [] [32]; Empty [66] [([9],[115],[50])] [] [10]] [10]] [10] in
  wf t = true /\ (height t <= 5)%nat.
Proof. split; [reflexivity|cbn; lia]. Qed.
