(* C12 - The KSR/SKR reader agrees with a standard XML parser, in any sibling order.
   Proved here: order independence of the bundle ordering and of everything the validation theorems
   quantify up to permutation, and independence of the repetition count in the element store.
   The agreement with a standard parser on plain-form documents is established by correspondence
   (Coq reader = kskm reader = ElementTree on generated documents); see DESIGN.md. *)
From Coq Require Import String Sorting.Permutation.
From KV Require Import Base.Prelude Base.Exn Base.Bytes Model.Data Model.KsrPolicy Model.Xml Proofs.LoadProofs Proofs.PopProofs
  Spec.KeyRules.

Theorem C12_bundle_order_independent : forall l l',
  distinct_keys l -> Permutation l l' -> sort_bundles l = sort_bundles l'.
Proof. exact sort_bundles_order_independent. Qed.
Print Assumptions C12_bundle_order_independent.

Theorem C12_repeat_count_irrelevant : forall name (vs : list val) d,
  Forall not_list vs -> vs <> [] -> lookup name d = None ->
  option_map as_list (lookup name (fold_left (fun acc v => store name v acc) vs d)) = Some vs.
Proof. exact repeat_count_irrelevant. Qed.
Print Assumptions C12_repeat_count_irrelevant.

Theorem C12_key_signature_order_independent : forall verify b b',
  Permutation (b_keys b) (b_keys b') -> Permutation (b_sigs b) (b_sigs b') ->
  (pop_bundle verify b = OK tt <-> pop_bundle verify b' = OK tt).
Proof. exact pop_order_independent. Qed.
Print Assumptions C12_key_signature_order_independent.
