(* C13 - Loading any file terminates: a fully validated object or a clean error. *)
From Coq Require Import String.
From KV Require Import Base.Prelude Base.Exn Base.Bytes Model.Data Model.Xml Proofs.XmlProofs Proofs.Bridge13.

(* for EVERY string and every Unicode word classification the reader's loops terminate:
   the fuel (length + 1) is never exhausted *)
Theorem C13_parse_total : forall uni_word xml, parse uni_word xml <> OutOfFuel.
Proof. exact parse_total. Qed.
Print Assumptions C13_parse_total.

Theorem C13_parse_ksr_total : forall uni_word xml, parse_ksr uni_word xml <> OutOfFuel.
Proof. exact parse_ksr_total. Qed.
Print Assumptions C13_parse_ksr_total.

(* the attribute loop consumes input or fails (the defect repaired in /repo: no-progress branch) *)
Theorem C13_parse_attrs_terminates : forall uni_word attrs,
  parse_attrs uni_word (S (length attrs)) attrs [] <> OutOfFuel.
Proof. exact parse_attrs_terminates. Qed.
Print Assumptions C13_parse_attrs_terminates.

Theorem C13_attr_match_consumes : forall uni_word y n v r,
  match_attr uni_word y = Some (n, v, r) -> (length r < length y)%nat.
Proof. exact match_attr_shorter. Qed.
Print Assumptions C13_attr_match_consumes.

Theorem C13_element_consumes : forall uni_word fuel x n a v e,
  first_element uni_word fuel x = Done (n, a, v, e) -> (0 < e)%nat /\ (length v <= length x)%nat.
Proof. exact first_element_props. Qed.
Print Assumptions C13_element_consumes.

(* Tie 1: size check precedes the single bounded read; validation precedes the only return *)
Theorem C13_gen_loader_shapes :
  Gen.IO.load_ksr_shape = ["open(filename, 'rb')"; "os.fstat"; "if ksr_file_size > MAX_KSR_SIZE: Raise"; "fd.read(MAX_KSR_SIZE)";
                           "request_from_xml_file"; "validate_request"; "return request"]%string /\
  Gen.IO.load_skr_shape = ["open(filename, 'rb')"; "os.fstat"; "if skr_file_size > MAX_SKR_SIZE: Raise"; "fd.read(MAX_SKR_SIZE)";
                           "response_from_xml"; "validate_response"; "return response"]%string /\
  Gen.IO.max_ksr_size = 1048576 /\ Gen.IO.max_skr_size = 1048576 /\
  Gen.IO.parse_recurse_default = "5"%string.
Proof. exact gen_loader_shapes. Qed.
Print Assumptions C13_gen_loader_shapes.
