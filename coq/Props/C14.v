(* C14 - DNSSEC wire-format primitives agree with the RFCs for every key.
   Only statements + `exact` + Print Assumptions live here. *)
From Coq Require Import String Sorting.Permutation.
From KV Require Import Base.Prelude Base.Exn Base.Bytes Model.Data Model.Wire Proofs.WireProofs Proofs.GenWire.

(* key tag = RFC 4034 Appendix B (32-bit accumulator), for every RDATA up to 65535 octets *)
Theorem C14_keytag_is_rfc4034B : forall rdata,
  bytes rdata -> len rdata <= 65535 -> key_tag_of_rdata rdata = rfc4034_keytag rdata.
Proof. exact keytag_is_rfc4034B. Qed.
Print Assumptions C14_keytag_is_rfc4034B.

(* RDATA = flags | protocol | algorithm | key, invertible; out-of-range fields are refused *)
Theorem C14_rdata_layout : forall flags proto alg pub r,
  key_to_rdata_raw flags proto alg pub = OK r ->
  r = [flags / 256; flags mod 256; proto; alg] ++ pub /\ rdata_parse r = Some (flags, proto, alg, pub).
Proof. exact rdata_layout. Qed.
Print Assumptions C14_rdata_layout.

(* RFC 3110: decode (encode e n) = (e, n, 8|n|) for every exponent length, incl. the 3-octet length form *)
Theorem C14_rfc3110_roundtrip : forall e n b,
  0 < e -> rsa_encode e n = OK b ->
  rsa_decode b = OK (mkRsaPub (len n * 8) e n) /\
  (Z.of_nat (byte_len e) <= 255 -> hd 0 b = Z.of_nat (byte_len e)) /\
  (255 < Z.of_nat (byte_len e) -> hd 1 b = 0).
Proof. exact rfc3110_roundtrip. Qed.
Print Assumptions C14_rfc3110_roundtrip.

(* ECDSA: token point (bare or DER wrapped) -> RFC 6605 X|Y ; nothing else is ever derived *)
Theorem C14_ecdsa_token_point_bare : forall q curve,
  curve_ok curve -> len q * 8 / 2 = curve -> der_wrapped (4 :: q) = false ->
  p11_ec_point_to_pub (4 :: q) curve = OK (Some q).
Proof. exact ecdsa_token_point_bare. Qed.
Print Assumptions C14_ecdsa_token_point_bare.
Theorem C14_ecdsa_token_point_wrapped : forall q curve,
  curve_ok curve -> len q * 8 / 2 = curve ->
  p11_ec_point_to_pub (4 :: (len q + 1) :: 4 :: q) curve = OK (Some q).
Proof. exact ecdsa_token_point_wrapped. Qed.
Print Assumptions C14_ecdsa_token_point_wrapped.
Theorem C14_ecdsa_token_point_sound : forall point curve q,
  p11_ec_point_to_pub point curve = OK (Some q) ->
  len q * 8 / 2 = curve /\ (point = 4 :: q \/ exists l, point = 4 :: l :: 4 :: q).
Proof. exact ecdsa_token_point_sound. Qed.
Print Assumptions C14_ecdsa_token_point_sound.
Theorem C14_ecdsa_rfc6605_to_sec1 : forall q alg,
  (alg = ECDSAP256SHA256 /\ len q = 64) \/ (alg = ECDSAP384SHA384 /\ len q = 96) ->
  ecdsa_to_sec1 q alg = 4 :: q.
Proof. exact ecdsa_rfc6605_to_sec1. Qed.
Print Assumptions C14_ecdsa_rfc6605_to_sec1.

(* RRSIG to-be-signed octets are the RFC 4034 3.1.8.1 data in canonical RR order, and
   do not depend on the iteration order of the key set *)
Theorem C14_make_raw_rrsig_is_rfc : forall s keys out,
  make_raw_rrsig s keys = OK out -> rfc4034_signature_data s keys out.
Proof. exact make_raw_rrsig_is_rfc. Qed.
Print Assumptions C14_make_raw_rrsig_is_rfc.
Theorem C14_signature_data_unique : forall s keys o1 o2,
  rfc4034_signature_data s keys o1 -> rfc4034_signature_data s keys o2 -> o1 = o2.
Proof. exact rfc4034_signature_data_unique. Qed.
Print Assumptions C14_signature_data_unique.
Theorem C14_tbs_perm_invariant : forall s keys keys',
  Permutation keys keys' -> make_raw_rrsig s keys = make_raw_rrsig s keys'.
Proof. exact tbs_perm_invariant. Qed.
Print Assumptions C14_tbs_perm_invariant.

(* DS preimage and revocation *)
Theorem C14_ds_preimage : forall k out,
  ds_preimage dot k = OK out ->
  out = [0] ++ pack2 (k_flags k) ++ pack1 (k_proto k) ++ pack1 (k_alg k) ++ k_pub k.
Proof. exact ds_preimage_layout. Qed.
Print Assumptions C14_ds_preimage.
Theorem C14_as_revoked_only_bit7 : forall k k',
  as_revoked k = OK k' ->
  k_flags k' = Z.lor (k_flags k) 128 /\
  (forall i, i <> 7 -> Z.testbit (k_flags k') i = Z.testbit (k_flags k) i) /\
  Z.testbit (k_flags k') 7 = true /\
  k_id k' = k_id k /\ k_ttl k' = k_ttl k /\ k_proto k' = k_proto k /\ k_alg k' = k_alg k /\
  k_pubtxt k' = k_pubtxt k /\ k_pub k' = k_pub k /\
  calculate_key_tag k' = OK (k_tag k').
Proof. exact as_revoked_only_bit7. Qed.
Print Assumptions C14_as_revoked_only_bit7.

(* Tie 1: the layouts and tables the theorems are about are the ones /repo contains now *)
Theorem C14_gen_layouts : forall s,
  Gen.Wire.rrsig_header (s_type s) (s_alg s) (s_labels s) (s_ottl s) (s_exp s / usec) (s_inc s / usec) (s_tag s)
  = pack2 (s_type s) ++ pack1 (s_alg s) ++ pack1 (s_labels s) ++ pack4 (s_ottl s)
    ++ pack4 (s_exp s / usec) ++ pack4 (s_inc s / usec) ++ pack2 (s_tag s)
  /\ [0] ++ Gen.Wire.rrsig_rr_prefix_fixed (s_type s) CLASS_IN (s_ottl s) = rr_prefix [0] (s_type s) (s_ottl s)
  /\ (forall r, Gen.Wire.rrsig_rdlength (len r) = pack2 (len r))
  /\ Gen.Wire.rrsig_sorted_over = "rdata"%string
  /\ Gen.Wire.rrsig_collect_loops = "keys : rdata += [key_to_rdata(key)]"%string
  /\ Gen.Wire.rrsig_loop_body = "length = struct.pack('!H', len(this)) | res += prefix + length + this"%string.
Proof. exact gen_rrsig_layout. Qed.
Print Assumptions C14_gen_layouts.
Theorem C14_gen_key_tag_formula :
  Gen.Wire.key_tag_return_expr = "(_sum & 65535) + (_sum >> 16) & 65535"%string /\
  Gen.Wire.key_tag_loop_body = "if _odd:
    _sum += this
else:
    _sum += this << 8 | _odd = not _odd"%string.
Proof. exact gen_key_tag_formula. Qed.
Print Assumptions C14_gen_key_tag_formula.
Theorem C14_gen_rdata_header : forall f p a pub r,
  key_to_rdata_raw f p a pub = OK r -> r = Gen.Wire.key_to_rdata_header f p a ++ pub.
Proof. exact gen_key_to_rdata_header. Qed.
Print Assumptions C14_gen_rdata_header.
Theorem C14_gen_tables :
  (Gen.Wire.flag_SEP, Gen.Wire.flag_REVOKE, Gen.Wire.flag_ZONE) = (FLAG_SEP, FLAG_REVOKE, FLAG_ZONE) /\
  (Gen.Wire.type_values, Gen.Wire.class_IN, Gen.Wire.dn2wire_root) = ([TYPE_DNSKEY], CLASS_IN, [0]) /\
  Gen.Wire.ecdsa_expected_sizes = [(ECDSAP256SHA256, 256); (ECDSAP384SHA384, 384)] /\
  Gen.Wire.algorithm_values = all_algorithms.
Proof. exact (conj gen_flags (conj gen_type_class (conj gen_ecdsa_sizes gen_algorithm_values))). Qed.
Print Assumptions C14_gen_tables.
