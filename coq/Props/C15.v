(* C15 - The PKCS#11 layer finds the right key and hands the token the right octets. *)
From Coq Require Import String.
From KV Require Import Base.Prelude Base.Exn Base.Bytes Model.Data Model.Wire Model.Token Proofs.TokenProofs Proofs.WireProofs Proofs.Bridge15.

(* look-up: for every layout (any number of slots and objects) *)
Theorem C15_lookup_none : forall mi ss label cls hh,
  (forall s, In s ss -> matches label cls s = []) -> find_in_slots mi ss label cls hh = OK None.
Proof. exact lookup_none. Qed.
Print Assumptions C15_lookup_none.

Theorem C15_lookup_unique : forall mi pre s post label cls hh o pub,
  (forall s', In s' pre -> matches label cls s' = []) -> matches label cls s = [o] ->
  (if cls =? CKO_SECRET then OK None else o_pubkey o) = OK pub -> known_ktype (o_ktype o) = true ->
  find_in_slots mi (pre ++ s :: post) label cls hh = OK (Some (key_of mi s o label cls hh pub)).
Proof. exact lookup_unique. Qed.
Print Assumptions C15_lookup_unique.

Theorem C15_duplicate_is_error : forall mi pre s post label cls hh o1 o2 more,
  (forall s', In s' pre -> matches label cls s' = []) -> matches label cls s = o1 :: o2 :: more ->
  find_in_slots mi (pre ++ s :: post) label cls hh = Raise RuntimeError.
Proof. exact duplicate_is_error. Qed.
Print Assumptions C15_duplicate_is_error.

Theorem C15_lookup_sound : forall mi ss label cls hh k,
  find_in_slots mi ss label cls hh = OK (Some k) ->
  exists pre s post o pub, ss = pre ++ s :: post /\ (forall s', In s' pre -> matches label cls s' = []) /\
    matches label cls s = [o] /\ k = key_of mi s o label cls hh pub /\
    (if cls =? CKO_SECRET then OK None else o_pubkey o) = OK pub.
Proof. exact lookup_sound. Qed.
Print Assumptions C15_lookup_sound.

Theorem C15_first_module_wins : forall ms i label public hh k,
  get_p11_key_from i ms label public hh = OK (Some k) ->
  exists pre m post, ms = (pre ++ m :: post)%list /\
    (forall j m', nth_error pre j = Some m' -> find_key_by_label (i + Z.of_nat j) m' label (if public then CKO_PUBLIC else CKO_PRIVATE) hh = OK None) /\
    find_key_by_label (i + Z.of_nat (length pre)) m label (if public then CKO_PUBLIC else CKO_PRIVATE) hh = OK (Some k).
Proof. exact get_p11_key_first_module. Qed.
Print Assumptions C15_first_module_wins.

Theorem C15_not_found_means_no_module_has_it : forall ms i label public hh,
  get_p11_key_from i ms label public hh = OK None ->
  forall j m', nth_error ms j = Some m' -> find_key_by_label (i + Z.of_nat j) m' label (if public then CKO_PUBLIC else CKO_PRIVATE) hh = OK None.
Proof. exact get_p11_key_none. Qed.
Print Assumptions C15_not_found_means_no_module_has_it.

Theorem C15_sessions_only_logged_in : forall m s, In s (sessions m) <-> In s m /\ sl_login_ok s = true.
Proof. exact sessions_only_logged_in. Qed.
Print Assumptions C15_sessions_only_logged_in.

(* the public key derived from an EC point is the token's X|Y (C14 theorem, restated for this property) *)
Theorem C15_ec_pubkey_is_token_key : forall point curve q,
  p11_ec_point_to_pub point curve = OK (Some q) ->
  len q * 8 / 2 = curve /\ (point = 4 :: q \/ exists l, point = 4 :: l :: 4 :: q).
Proof. exact ecdsa_token_point_sound. Qed.
Print Assumptions C15_ec_pubkey_is_token_key.

(* octets handed to the token; H (hashes) and token_sign are parameters *)
Theorem C15_token_input_raw_rsa : forall H key data alg h oid r,
  truthy (pk_hash_hsm key) = false -> digestinfo alg = Some (h, oid) -> pk_pub key <> None ->
  rsa_decode (pk_pubraw key) = OK r ->
  format_data_for_signing H key data alg = OK (CKM_RSA_X_509, emsa_pkcs1_v15 (rsa_bits r / 8) (oid ++ H h data)).
Proof. exact token_input_raw_rsa. Qed.
Print Assumptions C15_token_input_raw_rsa.

Theorem C15_emsa_full_modulus_length : forall k T, len T + 3 <= k -> len (emsa_pkcs1_v15 k T) = k.
Proof. exact (emsa_length (fun _ _ => []) (fun _ _ _ => Raise 0)). Qed.
Print Assumptions C15_emsa_full_modulus_length.

Theorem C15_token_input_hash_on_token : forall H key data alg m,
  truthy (pk_hash_hsm key) = true -> mech_hash_on_hsm alg = Some m -> m <> CKM_EDDSA ->
  format_data_for_signing H key data alg = OK (m, data).
Proof. exact token_input_hash_on_token. Qed.
Print Assumptions C15_token_input_hash_on_token.

Theorem C15_token_input_raw_ecdsa : forall H key data alg,
  truthy (pk_hash_hsm key) = false -> alg = ECDSAP256SHA256 \/ alg = ECDSAP384SHA384 ->
  format_data_for_signing H key data alg = OK (CKM_ECDSA, H (if alg =? ECDSAP256SHA256 then 256 else 384) data).
Proof. exact token_input_raw_ecdsa. Qed.
Print Assumptions C15_token_input_raw_ecdsa.

Theorem C15_never_sign_symmetric : forall H token_sign key data alg,
  pk_ktype key = CKK_AES \/ pk_ktype key = CKK_DES3 -> sign_using_p11 H token_sign key data alg = Raise ValueError.
Proof. exact never_sign_symmetric. Qed.
Print Assumptions C15_never_sign_symmetric.

Theorem C15_sign_goes_through_format : forall H token_sign key data alg sig,
  sign_using_p11 H token_sign key data alg = OK sig ->
  exists m d, format_data_for_signing H key data alg = OK (m, d) /\ token_sign key m d = OK sig /\ pk_cls key <> CKO_PUBLIC.
Proof. exact sign_goes_through_format. Qed.
Print Assumptions C15_sign_goes_through_format.

Theorem C15_env_restored : forall e upd k, NoDup (map fst upd) ->
  env_get (env_restore (env_update e upd) (env_save e upd)) k = env_get e k.
Proof. exact env_restored. Qed.
Print Assumptions C15_env_restored.

(* Tie 1 *)
Theorem C15_gen_mechanism_tables :
  Gen.Hsm.mech_hash_on_hsm = table_of mech_hash_on_hsm /\ Gen.Hsm.mech_raw = table_of mech_raw /\
  Gen.Hsm.mech_table_guard = "key.hash_using_hsm"%string.
Proof. exact gen_mechanism_tables. Qed.
Print Assumptions C15_gen_mechanism_tables.
Theorem C15_gen_digestinfo :
  Gen.Hsm.digestinfo = flat_map (fun a => match digestinfo a with Some (h, oid) => [(a, h, oid)] | None => [] end) [RSASHA1; RSASHA256; RSASHA512] /\
  Gen.Hsm.emsa_sig_len = "pubkey.bits // 8"%string /\ Gen.Hsm.emsa_pad_len = "sig_len - len(oid_digest) - 3"%string /\
  Gen.Hsm.emsa_pad = "b'\xff' * pad_len"%string /\ Gen.Hsm.emsa_oid_digest = "oid + digest"%string /\
  Gen.Hsm.emsa_assembly = "bytes([0, 1]) + pad + b'\x00' + oid_digest"%string /\
  Gen.Hsm.ecdsa_prehash = [(ECDSAP256SHA256, 256); (ECDSAP384SHA384, 384)] /\
  Gen.Hsm.ec_oid_table = [([6;8;42;134;72;206;61;3;1;7], 256); ([6;5;43;129;4;0;34], 384)].
Proof. exact gen_digestinfo. Qed.
Print Assumptions C15_gen_digestinfo.

(* tie of C15_never_sign_symmetric to the source: KeyType has exactly the members RSA, EC, AES, DES3 and the match in sign_using_p11 exactly the arms
   "RSA | EC -> go on" and "AES | DES3 -> raise", followed by _format_data_for_signing and key.sign *)
Theorem C15_gen_key_types :
  Gen.Hsm.keytype_members = [("RSA"%string, "_p11.CKK_RSA"%string); ("EC"%string, "_p11.CKK_EC"%string); ("AES"%string, "_p11.CKK_AES"%string); ("DES3"%string, "_p11.CKK_DES3"%string)] /\
  Gen.Hsm.sign_keytype_arms = [("KeyType.RSA | KeyType.EC"%string, "pass"%string); ("KeyType.AES | KeyType.DES3"%string, "raise"%string)] /\
  Gen.Hsm.sign_using_p11_steps = ["_sign_data = _format_data_for_signing"%string; "return key.sign"%string].
Proof. exact gen_key_types. Qed.
Print Assumptions C15_gen_key_types.
