(* C16 - Configuration is validated fail-closed, defaults are the secure documented ones. *)
From Coq Require Import String.
From KV Require Import Base.Prelude Base.Exn Base.Bytes Model.Data Model.KsrPolicy Model.Chain Model.Config
  Proofs.ConfigProofs Proofs.Bridge16.

(* omitted options take the documented defaults: the defaults read from /repo now ARE the documented ones *)
Theorem C16_defaults_are_documented :
  (Gen.Policy.rp_validate_signatures, Gen.Policy.rp_keys_match_zsk_policy, Gen.Policy.rp_rsa_exponent_match_zsk_policy,
   Gen.Policy.rp_check_cycle_length, Gen.Policy.rp_check_bundle_overlap, Gen.Policy.rp_signature_algorithms_match_zsk_policy,
   Gen.Policy.rp_signature_validity_match_zsk_policy, Gen.Policy.rp_check_keys_match_ksk_operator_policy,
   Gen.Policy.rp_signature_check_expire_horizon, Gen.Policy.rp_check_bundle_intervals, Gen.Policy.rp_check_chain_keys,
   Gen.Policy.rp_check_chain_keys_in_hsm, Gen.Policy.rp_check_chain_overlap, Gen.Policy.rp_check_keys_publish_safety,
   Gen.Policy.rp_check_keys_retire_safety)
  = (true, true, true, true, true, true, true, true, true, true, true, true, true, true, true) /\
  (Gen.Policy.rp_enable_unsupported_ecdsa, Gen.Policy.rp_enable_unsupported_edwards_dsa) = (false, false) /\
  Gen.Policy.rp_num_bundles = 9 /\ Gen.Policy.rp_num_keys_per_bundle = [2;1;1;1;1;1;1;1;2] /\
  Gen.Policy.rp_num_different_keys_in_all_bundles = 3 /\
  Gen.Policy.rp_approved_algorithms = [[82;83;65;83;72;65;50;53;54]] /\
  Gen.Policy.rp_rsa_approved_key_sizes = [2048] /\ Gen.Policy.rp_rsa_approved_exponents = [65537] /\
  Gen.Policy.rp_min_cycle_inception_length = (79 * D) /\ Gen.Policy.rp_max_cycle_inception_length = (81 * D) /\
  Gen.Policy.rp_min_bundle_interval = (9 * D) /\ Gen.Policy.rp_max_bundle_interval = (11 * D) /\
  Gen.Policy.rp_signature_horizon_days = 180 /\ Gen.Policy.rp_acceptable_domains = [[46]] /\
  Gen.Policy.rp_dns_ttl = 0 /\ Gen.Policy.ksk_ttl = 172800 /\ Gen.Policy.ksk_signers_name = [46] /\
  Gen.Policy.resp_num_bundles = 9 /\ Gen.Policy.resp_validate_signatures = true /\
  List.length Gen.Policy.rp_field_names = 30%nat.
Proof. exact gen_defaults. Qed.
Print Assumptions C16_defaults_are_documented.

Theorem C16_positivity_iff : forall h n d, config_positivity h n d = OK tt <-> 1 <= h /\ 1 <= n /\ 1 <= d.
Proof. exact positivity_iff. Qed.
Print Assumptions C16_positivity_iff.

Theorem C16_exit_status_nonzero_unless_success : forall e, exit_status e = 0 <-> e = Returned true.
Proof. exact exit_status_nonzero_unless_success. Qed.
Print Assumptions C16_exit_status_nonzero_unless_success.

Theorem C16_exit_status_config : exit_status RaisedConfiguration = 2.
Proof. exact exit_status_config. Qed.
Print Assumptions C16_exit_status_config.

Theorem C16_gen_exit_map :
  Gen.Pipeline.main_except_map = [("KeyboardInterrupt", "EXIT_CODES['interrupt']"); ("ConfigurationError", "EXIT_CODES['config']")]%string /\
  Gen.Pipeline.main_try_exits = ["EXIT_CODES['success']"; "EXIT_CODES['fatal']"]%string /\
  In ("ValidationError", "raise ConfigurationError(str(exc)) from exc")%string Gen.Pipeline.ksrsigner_except_map /\
  nth_error Gen.Pipeline.ksrsigner_stages 0 = Some "get_config"%string.
Proof. exact gen_exit_map. Qed.
Print Assumptions C16_gen_exit_map.
Theorem C16_gen_exit_codes :
  (Gen.Policy.exit_success, Gen.Policy.exit_interrupt, Gen.Policy.exit_config, Gen.Policy.exit_fatal) = (0, 1, 2, 3) /\
  Gen.Policy.max_ksr_size = 1048576 /\ Gen.Policy.max_skr_size = 1048576.
Proof. exact gen_exit_codes. Qed.
Print Assumptions C16_gen_exit_codes.

(* one flag, one check *)
Theorem C16_each_check_reads_only_its_own_flag : forall now p p' r,
  (p_check_cycle_length p = p_check_cycle_length p' -> p_min_cycle p = p_min_cycle p' -> p_max_cycle p = p_max_cycle p' ->
     check_cycle_durations p r = check_cycle_durations p' r) /\
  (p_check_bundle_overlap p = p_check_bundle_overlap p' -> check_bundle_overlaps p r = check_bundle_overlaps p' r) /\
  (p_sig_validity_match p = p_sig_validity_match p' -> check_signature_validity p r = check_signature_validity p' r) /\
  (p_check_horizon p = p_check_horizon p' -> p_horizon_days p = p_horizon_days p' ->
     check_signature_horizon now p r = check_signature_horizon now p' r) /\
  (p_check_bundle_intervals p = p_check_bundle_intervals p' -> p_min_interval p = p_min_interval p' -> p_max_interval p = p_max_interval p' ->
     check_bundle_intervals p r = check_bundle_intervals p' r) /\
  (p_num_bundles p = p_num_bundles p' -> check_bundle_count p r = check_bundle_count p' r) /\
  (p_acceptable_domains p = p_acceptable_domains p' -> check_domain p r = check_domain p' r) /\
  (p_keys_match_zsk_policy p = p_keys_match_zsk_policy p' -> p_rsa_exponent_match_zsk_policy p = p_rsa_exponent_match_zsk_policy p' ->
     check_keys_match_zsk_policy p r = check_keys_match_zsk_policy p' r) /\
  (p_check_keys_match_ksk p = p_check_keys_match_ksk p' -> p_num_keys_per_bundle p = p_num_keys_per_bundle p' ->
     p_num_different_keys p = p_num_different_keys p' -> check_keys_in_bundles p r = check_keys_in_bundles p' r).
Proof. exact each_check_reads_only_its_own_flag. Qed.
Print Assumptions C16_each_check_reads_only_its_own_flag.

Theorem C16_chain_checks_read_only_their_own_flag : forall p p' ksr skr last new tok,
  (p_check_chain_keys p = p_check_chain_keys p' -> check_chain_keys p ksr skr = check_chain_keys p' ksr skr) /\
  (p_check_chain_overlap p = p_check_chain_overlap p' -> check_chain_overlap p ksr skr = check_chain_overlap p' ksr skr) /\
  (p_check_chain_keys_in_hsm p = p_check_chain_keys_in_hsm p' -> check_last_skr_key_present p skr tok = check_last_skr_key_present p' skr tok) /\
  (p_check_publish_safety p = p_check_publish_safety p' -> check_publish_safety p last new = check_publish_safety p' last new) /\
  (p_check_retire_safety p = p_check_retire_safety p' -> check_retire_safety p last new = check_retire_safety p' last new).
Proof. exact chain_checks_read_only_their_own_flag. Qed.
Print Assumptions C16_chain_checks_read_only_their_own_flag.

(* every check function has its own guard flag as the code stands now *)
Theorem C16_gen_guards :
  Gen.Skeleton.check_guards = [
    ("check_keys_in_bundles", "check_keys_match_ksk_operator_policy", 0, 1);
    ("check_signature_validity", "signature_validity_match_zsk_policy", 0, 1);
    ("check_signature_horizon", "signature_check_expire_horizon", 0, 1);
    ("check_zsk_policy_algorithm", "signature_algorithms_match_zsk_policy", 1, 1);
    ("check_bundle_overlaps", "check_bundle_overlap", 0, 1);
    ("check_bundle_intervals", "check_bundle_intervals", 0, 1);
    ("check_unique_ids", "", -1, 0);
    ("check_keys_match_zsk_policy", "keys_match_zsk_policy", 0, 1);
    ("check_proof_of_possession", "validate_signatures", 0, 1);
    ("check_bundle_count", "", -1, 0);
    ("check_cycle_durations", "check_cycle_length", 0, 1);
    ("check_domain", "", -1, 0);
    ("check_unique_request", "", -1, 0);
    ("check_unique_bundle_ids", "", -1, 0);
    ("check_publish_safety", "check_keys_publish_safety", 0, 1);
    ("check_retire_safety", "check_keys_retire_safety", 0, 1);
    ("check_chain_keys", "check_chain_keys", 0, 1);
    ("check_chain_overlap", "check_chain_overlap", 0, 1);
    ("check_last_skr_key_present", "check_chain_keys_in_hsm", 1, 1)]%string.
Proof. exact gen_guards. Qed.
Print Assumptions C16_gen_guards.
