(* C17 - The digest and PGP words shown to the operator are of the bytes actually used. *)
From Coq Require Import String.
From KV Require Import Base.Prelude Base.Bytes Model.Data Model.Words Spec.PgpWords Proofs.WordsProofs Proofs.Bridge17.

Theorem C17_words_table_is_standard : Gen.Words.words = standard_words.
Proof. exact gen_words_standard. Qed.
Print Assumptions C17_words_table_is_standard.

Theorem C17_decode_encode : forall data, bytes data -> forall odd, pgp_decode standard_words odd (pgp_words standard_words odd data) = Some data.
Proof. exact decode_encode. Qed.
Print Assumptions C17_decode_encode.

Theorem C17_pgp_words_injective : forall a b, bytes a -> bytes b ->
  pgp_wordlist standard_words a = pgp_wordlist standard_words b -> a = b.
Proof. exact pgp_words_injective. Qed.
Print Assumptions C17_pgp_words_injective.

Theorem C17_columns_disjoint :
  forallb (fun row => match index_of (fst row) (map snd standard_words) 0 with None => true | Some _ => false end) standard_words = true.
Proof. exact columns_disjoint. Qed.
Print Assumptions C17_columns_disjoint.

Theorem C17_one_word_per_byte : forall tbl data odd, length (pgp_words tbl odd data) = length data.
Proof. exact pgp_words_length. Qed.
Print Assumptions C17_one_word_per_byte.

Theorem C17_shown_hash_is_parsed_bytes : forall (A B : Type) (digest : list Z -> A) (parse : list Z -> B) (read : nat -> list Z),
  exists buf, load_and_show digest parse read = (digest buf, parse buf).
Proof. exact @shown_hash_is_parsed_bytes. Qed.
Print Assumptions C17_shown_hash_is_parsed_bytes.

Theorem C17_gen_single_read :
  (Gen.IO.n_open_in_load_ksr, Gen.IO.n_read_in_load_ksr, Gen.IO.n_read_bytes_in_load_ksr, Gen.IO.n_read_text_in_load_ksr) = (1, 1, 0, 0) /\
  (Gen.IO.n_open_in_load_skr, Gen.IO.n_read_in_load_skr, Gen.IO.n_read_bytes_in_load_skr, Gen.IO.n_read_text_in_load_skr) = (1, 1, 0, 0) /\
  (Gen.IO.n_open_in_request_from_xml_file, Gen.IO.n_read_in_request_from_xml_file, Gen.IO.n_read_bytes_in_request_from_xml_file,
   Gen.IO.n_read_text_in_request_from_xml_file) = (0, 0, 0, 0) /\
  (Gen.IO.n_open_in_output_skr_xml, Gen.IO.n_write_in_output_skr_xml) = (1, 1) /\
  (Gen.IO.n_open_in_output_trustanchor_xml, Gen.IO.n_write_in_output_trustanchor_xml) = (1, 1).
Proof. exact gen_single_read. Qed.
Print Assumptions C17_gen_single_read.

Theorem C17_gen_pgp_wordlist_src :
  Gen.Words.pgp_wordlist_src = "odd = False | words: list[str] = [] | for byte in data:
    if odd:
        words.append(WORDS[byte][1])
    else:
        words.append(WORDS[byte][0])
    odd = not odd | return words"%string.
Proof. exact gen_pgp_wordlist_src. Qed.
Print Assumptions C17_gen_pgp_wordlist_src.
