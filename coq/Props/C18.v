(* C18 - The exported trust anchor states the true DS of each configured KSK on the token. *)
From Coq Require Import String Sorting.Sorted.
From KV Require Import Base.Prelude Base.Exn Base.Bytes Model.Data Model.Wire Model.Token Model.Sign Model.Duration Model.Datetime Model.TrustAnchor
  Proofs.TokenProofs Proofs.DatetimeProofs Proofs.TrustAnchorProofs Proofs.Bridge18.
From KV Require Gen.TrustAnchor.

(* which entries, how often, in which order *)
Theorem C18_entries_exact : forall ds_hex ms ttl kks es, ta_entries ds_hex ms ttl kks = OK es ->
  (forall e, In e es <-> exists nk, In nk kks /\ ta_entry ds_hex ms ttl (snd nk) = OK (Some e)) /\
  NoDup es /\ StronglySorted le_from es.
Proof. exact ta_entries_exact. Qed.
Print Assumptions C18_entries_exact.

(* what an entry states *)
Theorem C18_entry_content : forall ds_hex ms ttl ksk e, ta_entry ds_hex ms ttl ksk = OK (Some e) ->
  exists k ptxt rd, get_p11_key ms (kk_label ksk) true None = OK (Some k) /\ pk_pub k = Some ptxt /\
    key_to_rdata_raw 257 3 (kk_alg ksk) (pk_pubraw k) = OK rd /\
    e = mkKD (kk_label ksk) (key_tag_of_rdata rd) (kk_alg ksk) 2 (ds_hex (0 :: rd)) (kk_valid_from ksk) (kk_valid_until ksk).
Proof. exact ta_entry_content. Qed.
Print Assumptions C18_entry_content.

Theorem C18_absent_omitted : forall ds_hex ms ttl ksk, get_p11_key ms (kk_label ksk) true None = OK None -> ta_entry ds_hex ms ttl ksk = OK None.
Proof. exact ta_absent_omitted. Qed.
Print Assumptions C18_absent_omitted.

Theorem C18_only_configured : forall ds_hex ms ttl kks es e, ta_entries ds_hex ms ttl kks = OK es -> In e es ->
  exists nk, In nk kks /\ kd_id e = kk_label (snd nk).
Proof. exact ta_only_configured. Qed.
Print Assumptions C18_only_configured.

(* the validity attributes state the configured instants: for every instant whose UTC year has four digits, the rendered text reads back as that instant (to the second) *)
Theorem C18_timestamp_states_the_instant : forall us, min_seconds <= us / 1000000 <= max_seconds ->
  parse_datetime (format_datetime us) = Some (us / 1000000).
Proof. exact format_datetime_states_the_instant. Qed.
Print Assumptions C18_timestamp_states_the_instant.

Theorem C18_calendar_roundtrip : forall z, let '(y, m, d) := civil_from_days z in days_from_civil y m d = z /\ 1 <= m <= 12 /\ 1 <= d <= 31.
Proof. exact days_civil_roundtrip. Qed.
Print Assumptions C18_calendar_roundtrip.

(* identifiers: whatever the id is, the attribute reads back as it and cannot break out of its quotes; element content has no markup characters *)
Theorem C18_id_reads_back : forall s, unquote (quoteattr s) = Some s.
Proof. exact unquote_quoteattr. Qed.
Print Assumptions C18_id_reads_back.

Theorem C18_id_cannot_break_out : forall s, exists q body, quoteattr s = ([q] ++ body ++ [q])%list /\ (q = 34 \/ q = 39) /\ ~ In q body /\ ~ In 60 body.
Proof. exact quoteattr_shape. Qed.
Print Assumptions C18_id_cannot_break_out.

Theorem C18_content_escaped : forall s, (forall x, In x (escape s) -> x <> 60 /\ x <> 62) /\ unescape (length (escape s)) (escape s) = s.
Proof. intros s. split; [apply escape_no_markup|apply unescape_escape; apply le_n]. Qed.
Print Assumptions C18_content_escaped.

(* tie to the source *)
Theorem C18_source_shape : Gen.TrustAnchor.ta_dnskey_flags = 257 /\ Gen.TrustAnchor.digest_type_sha256 = 2 /\
  Gen.TrustAnchor.ta_loop_over = "config.ksk_keys.items()"%string.
Proof. repeat split; reflexivity. Qed.
Print Assumptions C18_source_shape.

(* two different key identifiers (or element texts) are never published as the same characters *)
Theorem C18_written_forms_injective : (forall a b, quoteattr a = quoteattr b -> a = b) /\ (forall a b, escape a = escape b -> a = b).
Proof. exact (conj quoteattr_injective escape_injective). Qed.
Print Assumptions C18_written_forms_injective.
