(* C19 - Key generation, deletion and inventory never clobber, guess or misreport keys. *)
From Coq Require Import String.
From KV Require Import Base.Prelude Base.Exn Base.Bytes Model.Data Model.Wire Model.Token Model.Sign Model.Keymaster
  Proofs.TokenProofs Proofs.KeymasterProofs Proofs.KeymasterStore Proofs.Bridge19.
From KV Require Gen.Keymaster.

(* ---- generation ---- *)
Theorem C19_existing_label_fails_token_unchanged : forall st label np nr,
  label_exists st label = OK true -> keygen st label np nr = OK (st, false).
Proof. exact keygen_existing_label_unchanged. Qed.
Print Assumptions C19_existing_label_fails_token_unchanged.

Theorem C19_lone_private_counts_as_existing : forall st label k,
  get_p11_key st label true None = OK None -> get_p11_key st label false None = OK (Some k) -> label_exists st label = OK true.
Proof. exact lone_private_counts_as_existing. Qed.
Print Assumptions C19_lone_private_counts_as_existing.

Theorem C19_keygen_adds_exactly_one_pair : forall st label np nr st',
  keygen st label np nr = OK (st', true) ->
  label_exists st label = OK false /\
  exists s, get_session st = OK (0, s) /\
    let pub := mkObj (next_handle s) CKO_PUBLIC label CKK_RSA (OK (Some np)) nr in
    let prv := mkObj (next_handle s + 1) CKO_PRIVATE label CKK_RSA (OK (Some np)) nr in
    (forall x, In x (all_objs st') <-> In x (all_objs st) \/ x = (0, sl_id s, pub) \/ x = (0, sl_id s, prv)) /\
    (Forall (fun m => NoDup (map sl_id m)) st -> length (all_objs st') = (length (all_objs st) + 2)%nat).
Proof. exact keygen_exact. Qed.
Print Assumptions C19_keygen_adds_exactly_one_pair.

Theorem C19_keygen_tag_collision_fails : forall st label np nr alg tags st' r1 r2 t,
  keygen st label np nr = OK (st', true) ->
  key_to_rdata_raw 257 3 alg nr = OK r1 -> key_to_rdata_raw 385 3 alg nr = OK r2 ->
  In (Some t) tags -> (t = key_tag_of_rdata r1 \/ t = key_tag_of_rdata r2) ->
  keygen_tool st label np nr alg tags = OK (st', Raise RuntimeError).
Proof. exact keygen_tag_collision_fails. Qed.
Print Assumptions C19_keygen_tag_collision_fails.

(* ---- deletion ---- *)
Theorem C19_delete_needs_yes_or_force : forall st label answer st' r,
  strip_newlines answer <> YES -> key_delete st label false answer = (st', r) -> st' = st.
Proof. exact delete_needs_yes_or_force. Qed.
Print Assumptions C19_delete_needs_yes_or_force.

Theorem C19_delete_removes_only_found : forall st label force answer st' r,
  key_delete st label force answer = (st', r) ->
  incl (all_objs st') (all_objs st) /\
  forall x, In x (all_objs st) -> ~ In x (all_objs st') ->
    exists k, (get_p11_key st label true None = OK (Some k) /\ pk_pub k <> None /\ pos_of x = (pk_module k, pk_slot k, pk_handle k)) \/
              (exists st1, incl (all_objs st1) (all_objs st) /\ get_p11_key st1 label false None = OK (Some k) /\ pos_of x = (pk_module k, pk_slot k, pk_handle k)).
Proof. exact delete_removes_only_found. Qed.
Print Assumptions C19_delete_removes_only_found.

Theorem C19_delete_removes_only_labelled : forall st label force answer st' r,
  NoDup (map pos_of (all_objs st)) -> key_delete st label force answer = (st', r) ->
  incl (all_objs st') (all_objs st) /\
  forall x, In x (all_objs st) -> ~ In x (all_objs st') ->
    o_label (snd x) = label /\ (o_cls (snd x) = CKO_PUBLIC \/ o_cls (snd x) = CKO_PRIVATE).
Proof. exact delete_removes_only_labelled. Qed.
Print Assumptions C19_delete_removes_only_labelled.

Theorem C19_delete_confirmed_removes_public : forall st label force answer st' r k x,
  key_delete st label force answer = (st', r) -> (force = true \/ strip_newlines answer = YES) ->
  get_p11_key st label true None = OK (Some k) -> pk_pub k <> None ->
  pos_of x = (pk_module k, pk_slot k, pk_handle k) -> ~ In x (all_objs st').
Proof. exact delete_confirmed_removes_public. Qed.
Print Assumptions C19_delete_confirmed_removes_public.

Theorem C19_delete_success_removes_both : forall st label force answer st',
  key_delete st label force answer = (st', OK true) -> (force = true \/ strip_newlines answer = YES) ->
  exists k st1 pk, get_p11_key st label true None = OK (Some k) /\
    st1 = (match pk_pub k with Some _ => remove_handle st (pk_module k) (pk_slot k) (pk_handle k) | None => st end) /\
    get_p11_key st1 label false None = OK (Some pk) /\
    all_objs st' = filter (fun x => negb (at_pos (pk_module pk, pk_slot pk, pk_handle pk) x)) (all_objs st1).
Proof. exact delete_success_removes_both. Qed.
Print Assumptions C19_delete_success_removes_both.

(* ---- histories ---- *)
Theorem C19_harmless_history_leaves_token_unchanged : forall ops st,
  (forall o, In o ops -> harmless st o) -> fold_left step ops st = st.
Proof. exact harmless_history_leaves_token_unchanged. Qed.
Print Assumptions C19_harmless_history_leaves_token_unchanged.

(* ---- inventory ---- *)
Theorem C19_inventory_lists_every_identity_once : forall ds_hex kks s inv, slot_inventory ds_hex kks s = OK inv ->
  let objs := snd s in
  si_slot inv = fst s /\
  (forall k, In k (map fst (si_pairs inv)) <-> present objs CKO_PUBLIC k /\ present objs CKO_PRIVATE k) /\
  (forall k, In k (si_left_pub inv) <-> present objs CKO_PUBLIC k /\ ~ present objs CKO_PRIVATE k) /\
  (forall k, In k (si_left_priv inv) <-> present objs CKO_PRIVATE k /\ ~ present objs CKO_PUBLIC k) /\
  (forall k, In k (si_left_secret inv) <-> present objs CKO_SECRET k) /\
  NoDup (map fst (si_pairs inv)) /\ NoDup (si_left_pub inv) /\ NoDup (si_left_priv inv) /\ NoDup (si_left_secret inv).
Proof. exact slot_inventory_exact. Qed.
Print Assumptions C19_inventory_lists_every_identity_once.

Theorem C19_inventory_marks_bad_ksk : forall ds_hex kks s inv k st, slot_inventory ds_hex kks s = OK inv -> In (k, st) (si_pairs inv) ->
  exists o ptxt, In o (snd s) /\ io_cls o = CKO_PUBLIC /\ io_key o = k /\ io_pub o = OK (Some ptxt) /\
    (st = 2 <-> exists nk, In nk kks /\ kk_label (snd nk) = fst k /\ ksk_verdict ds_hex (snd nk) o ptxt = OK false) /\
    (st = 1 <-> (exists nk, In nk kks /\ kk_label (snd nk) = fst k) /\
                forall nk, In nk kks -> kk_label (snd nk) = fst k -> ksk_verdict ds_hex (snd nk) o ptxt = OK true) /\
    (st = 0 <-> forall nk, In nk kks -> kk_label (snd nk) <> fst k).
Proof. exact inventory_marks_bad_ksk. Qed.
Print Assumptions C19_inventory_marks_bad_ksk.

Theorem C19_bad_means_key_does_not_match : forall ds_hex ksk o ptxt, ksk_verdict ds_hex ksk o ptxt = OK false <->
  (exists c, public_key_to_dnssec_key ptxt (io_raw o) (io_label o) (kk_alg ksk) 0 257 = Raise c /\ is_value_error c = true) \/
  (exists dns, public_key_to_dnssec_key ptxt (io_raw o) (io_label o) (kk_alg ksk) 0 257 = OK dns /\
               validate_dnskey_matches_ksk ds_hex ksk dns = Raise RuntimeError).
Proof. exact ksk_verdict_false. Qed.
Print Assumptions C19_bad_means_key_does_not_match.

(* ---- tie to the source ---- *)
Theorem C19_source_shape :
  Gen.Keymaster.rsa_exponent_default = 65537 /\ Gen.Keymaster.keygen_tag_flags = [257; 385] /\
  Gen.Keymaster.keygen_rsa_call_args = ["flags"; "args.key_size"; "p11modules"; "label=args.key_label"]%string /\
  Gen.Keymaster.format_keys_handlers = ["ValueError"; "RuntimeError"]%string.
Proof.
  split; [exact (proj1 gen_keygen_shape)|]. split; [exact (proj1 gen_keygen_tags)|].
  split; [exact (proj1 (proj2 (proj2 gen_keygen_shape)))|exact (proj2 (proj2 (proj2 gen_inventory_shape)))].
Qed.
Print Assumptions C19_source_shape.
