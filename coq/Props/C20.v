(* C20 - KSR receiver confines uploads, admits listed clients, judges like the signer. *)
From Coq Require Import String.
From KV Require Import Base.Prelude Base.Exn Base.Bytes Model.Data Model.Wire Model.KsrPolicy Model.Chain Model.Wksr Proofs.WksrProofs Proofs.Bridge20.
From KV Require Gen.Wksr.

(* whatever the client calls the file: only [A-Za-z0-9_-] survives the wash *)
Theorem C20_washed_name_safe : forall s c, In c (wash s) -> safe_char c = true.
Proof. exact washed_name_safe. Qed.
Print Assumptions C20_washed_name_safe.

Theorem C20_stored_name_confined : forall name now,
  has_sep (stored_name name now) = false /\ ~ In 0 (stored_name name now) /\ ~ In 92 (stored_name name now) /\
  (exists stem, stored_name name now = (stem ++ dot_xml)%list /\ ~ In 46 stem /\ stem <> []).
Proof. exact stored_name_confined. Qed.
Print Assumptions C20_stored_name_confined.

Theorem C20_stored_path_in_upload_dir : forall dir name now,
  join_path dir (stored_name name now) = (dir ++ [47] ++ stored_name name now)%list.
Proof. exact stored_path_in_upload_dir. Qed.
Print Assumptions C20_stored_path_in_upload_dir.

(* nothing is written unless content type and declared size pass; what is written is the uploaded body, at that path *)
Theorem C20_gates_before_write : forall cfg_ctype max_size dir ctype size name contents now path written,
  save_ksr cfg_ctype max_size dir ctype size name contents now = Written path written ->
  ctype = Some cfg_ctype /\ (exists n, size = Some n /\ n <= max_size) /\
  written = contents /\ path = (dir ++ [47] ++ stored_name name now)%list.
Proof. exact gates_before_write. Qed.
Print Assumptions C20_gates_before_write.

Theorem C20_gate_rejections : forall cfg_ctype max_size dir ctype size name contents now,
  (ctype <> Some cfg_ctype -> save_ksr cfg_ctype max_size dir ctype size name contents now = Rejected 400) /\
  (ctype = Some cfg_ctype -> size = None -> save_ksr cfg_ctype max_size dir ctype size name contents now = Rejected 400) /\
  (forall n, ctype = Some cfg_ctype -> size = Some n -> n > max_size -> save_ksr cfg_ctype max_size dir ctype size name contents now = Rejected 413).
Proof. exact gate_rejections. Qed.
Print Assumptions C20_gate_rejections.

(* the whitelist *)
Theorem C20_whitelist_passes_only_listed : forall fingerprint parses whitelist cert,
  dispatch fingerprint parses whitelist cert = OK true ->
  exists der, cert = Some der /\ parses der = true /\ In (fingerprint der) whitelist.
Proof. exact whitelist_passes_only_listed. Qed.
Print Assumptions C20_whitelist_passes_only_listed.

Theorem C20_whitelist_refuses_unlisted : forall fingerprint parses whitelist der,
  parses der = true -> ~ In (fingerprint der) whitelist -> dispatch fingerprint parses whitelist (Some der) = Raise HTTP403.
Proof. exact whitelist_refuses_unlisted. Qed.
Print Assumptions C20_whitelist_refuses_unlisted.

Theorem C20_no_certificate_no_pass : forall fingerprint parses whitelist, exists c, dispatch fingerprint parses whitelist None = Raise c.
Proof. exact no_certificate_no_pass. Qed.
Print Assumptions C20_no_certificate_no_pass.

(* the verdict: OK exactly when the signer's KSR validation and the token-less chain validation accept; policy violations give ERROR *)
Theorem C20_verdict_ok_iff : forall verify now p prev parsed,
  validate_ksr verify now p prev parsed = OK true <->
  exists ksr, parsed = OK ksr /\ validate_request verify now p ksr = OK tt /\
    (prev = None \/ exists skr, prev = Some (OK skr) /\ check_skr_and_ksr p ksr skr None = OK tt).
Proof. exact verdict_ok_iff. Qed.
Print Assumptions C20_verdict_ok_iff.

Theorem C20_verdict_error_iff : forall verify now p prev parsed,
  validate_ksr verify now p prev parsed = OK false <-> exists c, judge verify now p prev parsed = Raise c /\ is_policy_violation c = true.
Proof. exact verdict_error_iff. Qed.
Print Assumptions C20_verdict_error_iff.

(* tie to the source *)
Theorem C20_wash_class_is_the_patterns : forall c,
  safe_char c = existsb (fun r : Z * Z => (fst r <=? c) && (c <=? snd r)) Gen.Wksr.wash_kept_ranges.
Proof. exact kept_ranges_are_safe_char. Qed.
Print Assumptions C20_wash_class_is_the_patterns.

Theorem C20_error_classes_are_policy_violations :
  forallb is_policy_violation Gen.Wksr.pv_codes = true /\ forallb (fun c => negb (is_policy_violation c)) Gen.Wksr.other_codes = true.
Proof. exact policy_violation_classes. Qed.
Print Assumptions C20_error_classes_are_policy_violations.
