(* Declarative chain (C08) and publish/retire-safety (C09) rules. *)
From KV Require Import Base.Prelude Base.Exn Base.Bytes Model.Data Model.KsrPolicy Model.Chain.

Definition key_listed (id : text) (ks : list Key) : Prop := exists k, In k ks /\ k_id k = id.
Definition same_key (a b : Key) : Prop :=
  k_id a = k_id b /\ k_tag a = k_tag b /\ k_ttl a = k_ttl b /\ k_flags a = k_flags b /\
  k_proto a = k_proto b /\ k_alg a = k_alg b /\ k_pubtxt a = k_pubtxt b.

(* last bundle of the previous SKR and first bundle of the new KSR/SKR must exist *)
Definition boundary {B} (prev : list Bundle) (next : list Bundle) (P : Bundle -> Bundle -> B -> Prop) (x : B) : Prop :=
  exists lastb first rest, last_opt prev = Some lastb /\ next = first :: rest /\ P lastb first x.

Definition chain_spec (p : ReqPolicy) (ksr : Request) (skr : Response) (token : option Lookup) : Prop :=
  rq_id ksr <> rs_id skr /\
  (forall kb sb, In kb (rq_bundles ksr) -> In sb (rs_bundles skr) -> b_id kb <> b_id sb) /\
  (p_check_chain_keys p = true ->
     exists lastb first rest, last_opt (rs_bundles skr) = Some lastb /\ rq_bundles ksr = first :: rest /\
       forall k, In k (b_keys first) -> exists k', In k' (b_keys lastb) /\ same_key k k') /\
  (p_check_chain_overlap p = true ->
     exists lastb first rest, last_opt (rs_bundles skr) = Some lastb /\ rq_bundles ksr = first :: rest /\
       sp_min_overlap (rq_zsk ksr) <= b_exp lastb - b_inc first <= sp_max_overlap (rq_zsk ksr)) /\
  (forall lookup, token = Some lookup -> p_check_chain_keys_in_hsm p = true ->
     exists lastb, last_opt (rs_bundles skr) = Some lastb /\ b_sigs lastb <> [] /\
       forall s, In s (b_sigs lastb) ->
         exists pubtxt key, lookup (s_id s) = OK (Some (Some pubtxt)) /\
           find_key_by_id (s_id s) (b_keys lastb) = Some key /\ k_pubtxt key = pubtxt).

Definition publish_spec (last_skr new_skr : Response) : Prop :=
  exists lastb first rest, last_opt (rs_bundles last_skr) = Some lastb /\ rs_bundles new_skr = first :: rest /\
    (forall s, In s (b_sigs first) -> key_listed (s_id s) (b_keys lastb)) /\
    b_inc lastb <= b_inc first - sp_publish_safety (rs_ksk new_skr) <= b_exp lastb.

(* every non-revoked signer of bundle i stays published in all later bundles j > i *)
Fixpoint stays_published (bs : list Bundle) : Prop :=
  match bs with
  | [] => True
  | cur :: rest =>
      (forall b s, In b rest -> In s (b_sigs cur) ->
         (forall k, In k (b_keys cur) -> k_id k = s_id s -> is_revoked k = false) ->
         key_listed (s_id s) (b_keys b)) /\ stays_published rest
  end.

Definition retire_spec (last_skr new_skr : Response) : Prop :=
  exists lastb first rest, last_opt (rs_bundles last_skr) = Some lastb /\ rs_bundles new_skr = first :: rest /\
    (forall b, In b (rs_bundles new_skr) -> b_inc b <= b_inc first + sp_retire_safety (rs_ksk new_skr) ->
       forall s, In s (b_sigs lastb) -> key_listed (s_id s) (b_keys b)) /\
    stays_published (rs_bundles new_skr).

Definition safety_spec (p : ReqPolicy) (last_skr new_skr : Response) : Prop :=
  (p_check_publish_safety p = true -> publish_spec last_skr new_skr) /\
  (p_check_retire_safety p = true -> retire_spec last_skr new_skr).
