(* Declarative KSR key / algorithm / header rules (C06) and proof of possession (C07). *)
From KV Require Import Base.Prelude Base.Exn Base.Bytes Model.Data Model.Wire Model.KsrPolicy Spec.ChainRules.
From Coq Require Import Sorting.Permutation.

(* what the XML loader can produce: each policy entry's class matches its algorithm family *)
Definition wf_alg (a : AlgPolicy) : Prop :=
  match a with
  | APRsa al _ _ => is_rsa al = true
  | APEcdsa al _ => is_ecdsa al = true
  | APEddsa al _ => is_eddsa al = true
  end.

(* base64 decoding is a function of the text *)
Definition dec_fun (l : list Key) : Prop :=
  forall a b, In a l -> In b l -> k_pubtxt a = k_pubtxt b -> k_pub a = k_pub b.

Definition key_params_declared (p : ReqPolicy) (algs : list AlgPolicy) (k : Key) : Prop :=
  (is_rsa (k_alg k) = true /\
     exists r, rsa_decode (k_pub k) = OK r /\
       exists bits e, In (APRsa (k_alg k) bits e) algs /\ rsa_bits r = bits /\
                      (rsa_e r = e \/ p_rsa_exponent_match_zsk_policy p = false)) \/
  (is_ecdsa (k_alg k) = true /\ k_pub k <> [] /\
     exists bits pk, In (APEcdsa (k_alg k) bits) algs /\ ecdsa_without_prefix (k_pub k) (k_alg k) = OK pk /\
                     ecdsa_pubkey_size pk = bits) \/
  (is_eddsa (k_alg k) = true /\ k_pub k <> [] /\
     exists bits pk, In (APEddsa (k_alg k) bits) algs /\ eddsa_without_prefix (k_pub k) (k_alg k) = OK pk /\
                     len pk * 8 = bits).

Definition key_good (p : ReqPolicy) (algs : list AlgPolicy) (k : Key) : Prop :=
  key_params_declared p algs k /\ k_flags k = 256 /\ calculate_key_tag k = OK (k_tag k).

(* a key identifier denotes the same key everywhere it appears *)
Definition consistent (l : list Key) : Prop :=
  forall a b, In a l -> In b l -> k_id a = k_id b -> same_key a b.

Definition alg_base_ok (p : ReqPolicy) (a : AlgPolicy) : Prop :=
  mem (ap_alg a) deprecated_algorithms = false /\ mem (ap_alg a) supported_algorithms = true /\
  (is_ecdsa (ap_alg a) = true -> p_enable_ecdsa p = true) /\
  (is_eddsa (ap_alg a) = true -> p_enable_eddsa p = true).
Definition alg_approved_ok (p : ReqPolicy) (a : AlgPolicy) : Prop :=
  mem (ap_alg a) (p_approved_algorithms p) = true /\
  (is_rsa (ap_alg a) = true ->
     exists bits e, a = APRsa (ap_alg a) bits e /\ mem bits (p_rsa_sizes p) = true /\ mem e (p_rsa_exponents p) = true).

Definition keys_header_spec (p : ReqPolicy) (r : Request) : Prop :=
  (exists d, In d (p_acceptable_domains p) /\ d = rq_domain r) /\
  NoDup (map b_id (rq_bundles r)) /\
  (p_keys_match_zsk_policy p = true ->
     Forall (key_good p (sp_algs (rq_zsk r))) (all_keys r) /\ consistent (all_keys r)) /\
  (p_check_keys_match_ksk p = true ->
     Forall2 (fun b n => Z.of_nat (length (b_keys b)) = n) (rq_bundles r) (p_num_keys_per_bundle p) /\
     Z.of_nat (length (distinct_ids [] (all_keys r))) = p_num_different_keys p) /\
  Forall (alg_base_ok p) (sp_algs (rq_zsk r)) /\
  (p_sig_algs_match p = true -> Forall (alg_approved_ok p) (sp_algs (rq_zsk r))).
