(* Declarative statement of the documented KSR timing rules (property C05). *)
From KV Require Import Base.Prelude Base.Bytes Model.Data Model.KsrPolicy.

Definition validity_ok (zsk : SigPolicy) (b : Bundle) : Prop :=
  sp_min_validity zsk <= b_exp b - b_inc b <= sp_max_validity zsk.

(* consecutive bundles never leave a gap, and overlap within the declared bounds *)
Definition overlap_ok (zsk : SigPolicy) (pr : Bundle * Bundle) : Prop :=
  b_inc (snd pr) <= b_exp (fst pr) /\
  sp_min_overlap zsk <= b_exp (fst pr) - b_inc (snd pr) <= sp_max_overlap zsk.

Definition interval_ok (p : ReqPolicy) (pr : Bundle * Bundle) : Prop :=
  p_min_interval p <= b_inc (snd pr) - b_inc (fst pr) <= p_max_interval p.

Definition cycle_ok (p : ReqPolicy) (bs : list Bundle) : Prop :=
  match bs with
  | [] => True
  | first :: _ => p_min_cycle p <= b_inc (last bs first) - b_inc first <= p_max_cycle p
  end.

(* d = whole days (floor) from now to the expiration *)
Definition horizon_ok (now : Z) (p : ReqPolicy) (b : Bundle) : Prop :=
  let d := (b_exp b - now) / day_us in
  ~ (p_horizon_days p <> 0 /\ d > p_horizon_days p) /\ ~ (p_horizon_days p > 0 /\ d < 0).

Definition timing_spec (now : Z) (p : ReqPolicy) (r : Request) : Prop :=
  Z.of_nat (length (rq_bundles r)) = p_num_bundles p /\
  (p_check_cycle_length p = true -> cycle_ok p (rq_bundles r)) /\
  (p_check_bundle_overlap p = true -> Forall (overlap_ok (rq_zsk r)) (adjacent (rq_bundles r))) /\
  (p_sig_validity_match p = true -> Forall (validity_ok (rq_zsk r)) (rq_bundles r)) /\
  (p_check_horizon p = true -> Forall (horizon_ok now p) (rq_bundles r)) /\
  (p_check_bundle_intervals p = true -> Forall (interval_ok p) (adjacent (rq_bundles r))).
