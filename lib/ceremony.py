"""Drive the real signer (create_skr / ksrsigner) against the token emulator."""
from __future__ import annotations

import argparse
import base64
import datetime as dt
import hashlib

import emu
import ksrxml

UTC = dt.timezone.utc
ALGNAME = {5: "RSASHA1", 8: "RSASHA256", 10: "RSASHA512", 13: "ECDSAP256SHA256", 14: "ECDSAP384SHA384"}


def ksk_def(kd: dict, valid_from=None, valid_until=None, with_tag=True, with_ds=True, hash_using_hsm=None, **over) -> dict:
    """config 'keys' entry for a KSK key dict (ksrxml.mk_key with flags=257, ident=label)"""
    d = {"description": f"KSK {kd['id']}", "label": kd["id"], "algorithm": ALGNAME[kd["alg"]],
         "valid_from": valid_from or dt.datetime(2010, 1, 1, tzinfo=UTC)}
    if valid_until is not None:
        d["valid_until"] = valid_until
    if kd["alg"] in (5, 8, 10):
        nums = kd["priv"].public_key().public_numbers()
        d["rsa_size"] = nums.n.bit_length()
        d["rsa_exponent"] = nums.e
    rd = ksrxml.rdata(257, 3, kd["alg"], kd["pub"])
    if with_tag:
        d["key_tag"] = ksrxml.keytag(rd)
    if with_ds:
        d["ds_sha256"] = hashlib.sha256(b"\x00" + rd).hexdigest().upper()
    if hash_using_hsm is not None:
        d["hash_using_hsm"] = hash_using_hsm
    d.update(over)
    return d


def make_config(ksks: dict, schemas: dict, request_policy=None, response_policy=None, ksk_policy=None, hsm=None, filenames=None):
    from kskm.common.config import KSKMConfig
    cfg = {"hsm": hsm or {"emu": {"module": "emu:0", "pin": "1234"}},
           "keys": ksks, "schemas": schemas,
           "ksk_policy": ksk_policy or {"publish_safety": "P10D", "retire_safety": "P10D", "max_signature_validity": "P21D",
                                        "min_signature_validity": "P21D", "max_validity_overlap": "P16D", "min_validity_overlap": "P9D", "ttl": 172800},
           "request_policy": request_policy or {}, "response_policy": response_policy or {}}
    if filenames:
        cfg["filenames"] = filenames
    return KSKMConfig.from_dict(cfg)


def token_with(keys: list[dict], **pair_kw) -> emu.Token:
    """one module, one slot, a public/private pair per key dict (label = key id)"""
    objs = []
    for kd in keys:
        objs += emu.pair(kd["id"], kd["priv"], **pair_kw)
    return emu.Token({"emu:0": [emu.Slot(0, True, objs)]})


def args_ns(**kw):
    d = dict(debug=False, syslog=False, previous_skr=None, config=None, ksr=None, skr=None, log_ksr_contents=False,
             log_skr_contents=False, log_previous_skr_contents=False, schema="normal", force=False, hsm=None)
    d.update(kw)
    return argparse.Namespace(**d)


def dns_validate(bundle_keys: list[dict], sig: dict) -> tuple[bool, str]:
    """Independent RFC 4034/3110/6605 validation of one RRSIG over the published DNSKEY set, with dnspython."""
    import dns.dnssec
    import dns.name
    import dns.rdataclass
    import dns.rdatatype
    import dns.rrset
    from dns.rdtypes.ANY.DNSKEY import DNSKEY
    from dns.rdtypes.ANY.RRSIG import RRSIG
    root = dns.name.root
    rrset = dns.rrset.RRset(root, dns.rdataclass.IN, dns.rdatatype.DNSKEY)
    keyset = []
    for k in bundle_keys:
        rd = DNSKEY(dns.rdataclass.IN, dns.rdatatype.DNSKEY, k["flags"], k.get("proto", 3), k["alg"], k["pub"])
        rrset.add(rd, ttl=k["ttl"])
        keyset.append(rd)
    rrsig = RRSIG(dns.rdataclass.IN, dns.rdatatype.RRSIG, dns.rdatatype.DNSKEY, sig["alg"], sig["labels"], sig["ottl"],
                  ksrxml.ts(sig["exp"]), ksrxml.ts(sig["inc"]), sig["tag"], dns.name.from_text(sig["name"]), sig["data"])
    try:
        dns.dnssec.validate_rrsig(rrset, rrsig, {root: keyset}, now=ksrxml.ts(sig["inc"]) + 1)
        return True, ""
    except Exception as e:  # noqa: BLE001
        return False, f"{type(e).__name__}: {e}"
