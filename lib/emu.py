"""Software PKCS#11 token emulator standing in for PyKCS11.PyKCS11Lib inside the harness process.

State: modules -> slots (login_ok) -> objects (handle numbered per slot from 1, class, label, id, key type, key material).
Every call is logged; faults can be injected by operation index and kind. This is test scaffolding in the
trusted base; coq/Model/Token.v is what the theorems are about.
"""
from __future__ import annotations

import PyKCS11
import PyKCS11.LowLevel as LL
from cryptography.hazmat.primitives import hashes
from cryptography.hazmat.primitives.asymmetric import ec, padding, rsa, utils

HASHES = {LL.CKM_SHA1_RSA_PKCS: hashes.SHA1, LL.CKM_SHA256_RSA_PKCS: hashes.SHA256, LL.CKM_SHA512_RSA_PKCS: hashes.SHA512,
          LL.CKM_ECDSA_SHA256: hashes.SHA256, LL.CKM_ECDSA_SHA384: hashes.SHA384}
OID = {256: bytes.fromhex("06082a8648ce3d030107"), 384: bytes.fromhex("06052b81040022")}


def mk_handle(n: int):
    h = LL.CK_OBJECT_HANDLE()
    h.assign(n)
    return h


def handle_num(h) -> int:
    return int(h.value()) if hasattr(h, "value") else int(h)


class Obj:
    def __init__(self, cls, label, key=None, key_type=None, cka_id=None, pub_attrs=True, ec_wrapped=True, extra=None, attr_pad=0):
        self.cls = cls                  # LL.CKO_PUBLIC_KEY / CKO_PRIVATE_KEY / CKO_SECRET_KEY
        self.label = label
        self.key = key                  # cryptography private key (pair shares it) or None
        self.cka_id = cka_id
        self.pub_attrs = pub_attrs      # does a PRIVATE object expose modulus/exponent/ec point?
        self.ec_wrapped = ec_wrapped    # EC point as DER OCTET STRING (SoftHSM style) or bare 04|X|Y
        self.num = None
        if key_type is None:
            key_type = LL.CKK_RSA if isinstance(key, rsa.RSAPrivateKey) else LL.CKK_EC if key is not None else LL.CKK_AES
        self.key_type = key_type
        self.extra = extra or {}
        self.attr_pad = attr_pad        # leading zero octets some tokens put in front of CKA_PUBLIC_EXPONENT (e.g. 00 01 00 01)

    def attr(self, a):
        if a in self.extra:
            return self.extra[a]
        if a == LL.CKA_CLASS:
            return self.cls
        if a == LL.CKA_LABEL:
            return self.label
        if a == LL.CKA_ID:
            return () if self.cka_id is None else tuple(self.cka_id)
        if a == LL.CKA_KEY_TYPE:
            return self.key_type
        exposed = self.cls == LL.CKO_PUBLIC_KEY or self.pub_attrs
        if a in (LL.CKA_MODULUS, LL.CKA_PUBLIC_EXPONENT):
            if not exposed or not isinstance(self.key, rsa.RSAPrivateKey):
                return None
            nums = self.key.public_key().public_numbers()
            v = nums.n if a == LL.CKA_MODULUS else nums.e
            pad = self.attr_pad if a == LL.CKA_PUBLIC_EXPONENT else 0        # only the exponent: the code under test takes the modulus octets as they are
            return tuple(b"\0" * pad + v.to_bytes((v.bit_length() + 7) // 8, "big"))
        if a == LL.CKA_EC_POINT:
            if not exposed or not isinstance(self.key, ec.EllipticCurvePrivateKey):
                return ()
            from cryptography.hazmat.primitives import serialization
            pt = self.key.public_key().public_bytes(serialization.Encoding.X962, serialization.PublicFormat.UncompressedPoint)
            return tuple(bytes([4, len(pt)]) + pt) if self.ec_wrapped else tuple(pt)
        if a == LL.CKA_EC_PARAMS:
            if not isinstance(self.key, ec.EllipticCurvePrivateKey):
                return ()
            return tuple(OID[self.key.curve.key_size])
        return None


class Slot:
    def __init__(self, slot_id, login_ok=True, objects=()):
        self.slot_id = slot_id
        self.login_ok = login_ok
        self.objects: list[Obj] = []
        self.next = 1
        for o in objects:
            self.add(o)

    def add(self, o: Obj):
        o.num = self.next
        self.next += 1
        self.objects.append(o)
        return o

    def snapshot(self):
        return sorted((o.cls, o.label, o.cka_id, o.key_type, id(o.key)) for o in self.objects)


class Token:
    """modules: {module_path: [Slot, ...]}"""

    def __init__(self, modules):
        self.modules = modules
        self.log = []                     # (op, module, slot, detail...)
        self.faults = {}                  # op index (among fault-able ops) -> kind
        self.opcount = 0
        self.deterministic_ecdsa = True
        self.env_seen = {}                # module path -> snapshot of os.environ at load time
        self.sign_log = []                # (label, mechanism, data)

    def fault(self, op):
        """Returns the fault kind scheduled for this operation (or None) and advances the counter."""
        k = self.faults.get(self.opcount)
        self.opcount += 1
        self.log.append((op, self.opcount - 1, k))
        return k

    def snapshot(self):
        return {m: [(s.slot_id, s.snapshot()) for s in slots] for m, slots in self.modules.items()}


class EmuError(PyKCS11.PyKCS11Error):
    def __init__(self, text="CKR_GENERAL_ERROR"):
        self.value = 5
        self.text = text

    def __str__(self):
        return self.text


class EmuSession:
    def __init__(self, token: Token, module: str, slot: Slot):
        self.token, self.module, self.slot = token, module, slot
        self.logged_in = False

    def login(self, pin, user_type=None):
        k = self.token.fault("login")
        if k == "error" or not self.slot.login_ok:
            raise EmuError("CKR_PIN_INCORRECT")
        self.logged_in = True

    def findObjects(self, template=()):
        k = self.token.fault("find")
        if k == "error":
            raise EmuError("CKR_DEVICE_ERROR")
        res = []
        for o in self.slot.objects:
            if all(o.attr(a) == v for a, v in template):
                res.append(o)
        if k == "missing":
            res = []
        if k == "duplicate" and res:
            res = res + [res[0]]
        return [mk_handle(o.num) for o in res]

    def _obj(self, handle):
        n = handle_num(handle)
        for o in self.slot.objects:
            if o.num == n:
                return o
        raise EmuError("CKR_OBJECT_HANDLE_INVALID")

    def getAttributeValue(self, handle, attrs, allAsBinary=False):
        k = self.token.fault("attr")
        if k == "error":
            raise EmuError("CKR_DEVICE_ERROR")
        o = self._obj(handle)
        return [o.attr(a) for a in attrs]

    def sign(self, handle, data, mechanism):
        o = self._obj(handle)
        if hasattr(mechanism, "_mech"):
            mech = mechanism._mech.mechanism
        elif hasattr(mechanism, "mechanism"):
            mech = mechanism.mechanism
        else:
            mech = mechanism
        data = bytes(data)
        entry = {"label": o.label, "mech": mech, "data": data, "module": self.module, "slot": self.slot.slot_id, "handle": o.num, "result": None}
        self.token.sign_log.append(entry)
        k = self.token.fault("sign")
        entry["fault"] = k
        if k == "error":
            raise EmuError("CKR_FUNCTION_FAILED")
        if o.cls != LL.CKO_PRIVATE_KEY or o.key is None:
            raise EmuError("CKR_KEY_HANDLE_INVALID")
        key = o.key
        if k == "wrong-key":
            key = rsa.generate_private_key(65537, key.key_size) if isinstance(key, rsa.RSAPrivateKey) else ec.generate_private_key(key.curve)
        if k == "wrong-hash":
            data = data[:-1] + bytes([data[-1] ^ 1])
        sig = self._sign(key, mech, data)
        if k == "corrupt":
            sig = sig[:5] + bytes([sig[5] ^ 0x40]) + sig[6:]
        if k == "truncate":
            sig = sig[:-1]
        if k == "strip-zero":              # a driver that hands the RSA result back as a minimal-length integer
            sig = sig.lstrip(b"\0")
        entry["result"] = sig
        return sig

    def _sign(self, key, mech, data):
        if isinstance(key, rsa.RSAPrivateKey):
            if mech == LL.CKM_RSA_X_509:
                nums = key.private_numbers()
                n = nums.public_numbers.n
                k = (n.bit_length() + 7) // 8
                m = int.from_bytes(data, "big")
                if len(data) != k or m >= n:
                    raise EmuError("CKR_DATA_LEN_RANGE")
                return pow(m, nums.d, n).to_bytes(k, "big")
            if mech in HASHES:
                return key.sign(data, padding.PKCS1v15(), HASHES[mech]())
            raise EmuError("CKR_MECHANISM_INVALID")
        if isinstance(key, ec.EllipticCurvePrivateKey):
            n = key.curve.key_size // 8
            if mech == LL.CKM_ECDSA:
                h = {32: hashes.SHA256, 48: hashes.SHA384, 20: hashes.SHA1, 64: hashes.SHA512}.get(len(data))
                if h is None:
                    raise EmuError("CKR_DATA_LEN_RANGE")
                der = key.sign(data, ec.ECDSA(utils.Prehashed(h())))
            elif mech in HASHES:
                der = key.sign(data, ec.ECDSA(HASHES[mech]()))
            else:
                raise EmuError("CKR_MECHANISM_INVALID")
            r, s = utils.decode_dss_signature(der)
            return r.to_bytes(n, "big") + s.to_bytes(n, "big")
        raise EmuError("CKR_KEY_TYPE_INCONSISTENT")

    def generateKeyPair(self, pubT, privT, mecha=None):
        k = self.token.fault("generate")
        if k == "error":
            raise EmuError("CKR_FUNCTION_FAILED")
        pub = dict(pubT)
        bits = pub.get(LL.CKA_MODULUS_BITS, 2048)
        e = int.from_bytes(bytes(pub.get(LL.CKA_PUBLIC_EXPONENT, (1, 0, 1))), "big")
        gen = getattr(self.token, "keygen_hook", None)
        key = gen(bits, e) if gen else rsa.generate_private_key(e, bits)
        label = pub.get(LL.CKA_LABEL)
        a = self.slot.add(Obj(LL.CKO_PUBLIC_KEY, label, key))
        b = self.slot.add(Obj(LL.CKO_PRIVATE_KEY, dict(privT).get(LL.CKA_LABEL), key, pub_attrs=getattr(self.token, "gen_priv_pub_attrs", True)))
        self.token.log.append(("generated", self.module, self.slot.slot_id, label))
        return (mk_handle(a.num), mk_handle(b.num))

    def destroyObject(self, handle):
        k = self.token.fault("destroy")
        if k == "error":
            raise EmuError("CKR_FUNCTION_FAILED")
        o = self._obj(handle)
        self.slot.objects.remove(o)
        self.token.log.append(("destroyed", self.module, self.slot.slot_id, o.cls, o.label))


class _TokenInfo:
    def __init__(self, slot):
        self.slot = slot

    def to_dict(self):
        return {"label": f"emu-slot-{self.slot.slot_id}", "manufacturerID": "verif", "model": "emulator", "serialNumber": "0001"}


class _LowLib:
    def C_Initialize(self, *a):
        return 0


class EmuLib:
    token: Token = None     # set by install()

    def __init__(self):
        self.lib = _LowLib()
        self.module = None

    def load(self, path=None):
        import os
        path = str(path)
        if path not in self.token.modules:
            raise EmuError(f"cannot load module {path}")
        self.module = path
        self.token.env_seen[path] = dict(os.environ)
        self.token.log.append(("load", path))

    def getSlotList(self, tokenPresent=True):
        return [s.slot_id for s in self.token.modules[self.module]]

    def _slot(self, slot_id):
        for s in self.token.modules[self.module]:
            if s.slot_id == slot_id:
                return s
        raise EmuError("CKR_SLOT_ID_INVALID")

    def getTokenInfo(self, slot_id):
        return _TokenInfo(self._slot(slot_id))

    def openSession(self, slot_id, flags=0):
        k = self.token.fault("open")
        if k == "error":
            raise EmuError("CKR_TOKEN_NOT_PRESENT")
        return EmuSession(self.token, self.module, self._slot(slot_id))

    def closeAllSessions(self, slot_id):
        return None


_REAL = {}


def install(token: Token):
    if "lib" not in _REAL:
        _REAL["lib"] = PyKCS11.PyKCS11Lib
    EmuLib.token = token
    PyKCS11.PyKCS11Lib = EmuLib


def uninstall():
    if "lib" in _REAL:
        PyKCS11.PyKCS11Lib = _REAL["lib"]


def pair(label, key, cka_id=None, priv_pub_attrs=True, ec_wrapped=True):
    """public + private object for one key"""
    return [Obj(LL.CKO_PUBLIC_KEY, label, key, cka_id=cka_id, ec_wrapped=ec_wrapped),
            Obj(LL.CKO_PRIVATE_KEY, label, key, cka_id=cka_id, pub_attrs=priv_pub_attrs, ec_wrapped=ec_wrapped)]
