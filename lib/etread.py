"""What a KSR / SKR document states, read with ElementTree and converted with the Python standard library only (no kskm code).

Used to notice when the implementation judges a document on values other than the ones written in it: the spec transcriptions are
otherwise handed the implementation's own parsed objects and would share a misreading."""
import base64
import datetime as dt
import xml.etree.ElementTree as ET

UTC = dt.timezone.utc


def when(text: str) -> dt.datetime:
    t = text.strip()
    if t.endswith("Z"):
        t = t[:-1] + "+00:00"
    d = dt.datetime.fromisoformat(t)
    return d.replace(tzinfo=UTC) if d.tzinfo is None else d.astimezone(UTC)


def _key(k):
    return (k.attrib["keyIdentifier"], int(k.attrib["keyTag"]), int(k.findtext("TTL")), int(k.findtext("Flags")), int(k.findtext("Protocol")),
            int(k.findtext("Algorithm")), base64.b64decode(k.findtext("PublicKey")))


def _sig(s):
    return (s.attrib["keyIdentifier"], int(s.findtext("TTL")), s.findtext("TypeCovered").strip(), int(s.findtext("Algorithm")), int(s.findtext("Labels")),
            int(s.findtext("OriginalTTL")), when(s.findtext("SignatureExpiration")), when(s.findtext("SignatureInception")), int(s.findtext("KeyTag")),
            s.findtext("SignersName").strip(), base64.b64decode(s.findtext("SignatureData")))


KEY_FIELDS = ("keyIdentifier", "keyTag", "TTL", "Flags", "Protocol", "Algorithm", "PublicKey")
SIG_FIELDS = ("keyIdentifier", "TTL", "TypeCovered", "Algorithm", "Labels", "OriginalTTL", "SignatureExpiration", "SignatureInception", "KeyTag", "SignersName", "SignatureData")


def bundles(xml: str, tag: str):
    """-> [(id, inception, expiration, {key tuples}, {signature tuples})] or None when the document is not one a standard reader can convert"""
    try:
        root = ET.fromstring(xml.encode() if isinstance(xml, str) else xml)
        out = []
        for b in root.iter(tag):
            out.append((b.attrib["id"], when(b.findtext("Inception")), when(b.findtext("Expiration")),
                        {_key(k) for k in b.findall("Key")}, {_sig(s) for s in b.findall("Signature")}))
        return out
    except Exception:  # noqa: BLE001 - malformed on purpose: nothing to compare
        return None


def _k_key(k):
    return (k.key_identifier, k.key_tag, k.ttl, k.flags, k.protocol, k.algorithm.value, base64.b64decode(k.public_key))


def _k_sig(s):
    return (s.key_identifier, s.ttl, s.type_covered.name, s.algorithm.value, s.labels, s.original_ttl, s.signature_expiration.astimezone(UTC),
            s.signature_inception.astimezone(UTC), s.key_tag, s.signers_name, base64.b64decode(s.signature_data))


def misread(xml: str, obj, tag="RequestBundle") -> list[str]:
    """Differences between what the document states and the object kskm made of it (bundle by bundle, by id)."""
    doc = bundles(xml, tag)
    if doc is None:
        return []
    out = []
    got = {b.id: b for b in obj.bundles}
    ids = [d[0] for d in doc]
    if len(set(ids)) != len(ids) or sorted(ids) != sorted(got):
        if sorted(set(ids)) != sorted(got):
            out.append(f"bundle ids read {sorted(got)[:4]} but the document states {sorted(ids)[:4]}")
        return out
    for bid, inc, exp, keys, sigs in doc:
        b = got[bid]
        if b.inception.astimezone(UTC) != inc or b.expiration.astimezone(UTC) != exp:
            out.append(f"bundle {bid}: inception/expiration read as {b.inception.isoformat()} / {b.expiration.isoformat()} but the document states {inc.isoformat()} / {exp.isoformat()}")
        try:
            kk, ss = {_k_key(k) for k in b.keys}, {_k_sig(s) for s in b.signatures}
        except Exception as e:  # noqa: BLE001
            out.append(f"bundle {bid}: values not comparable ({type(e).__name__})")
            continue
        for have, want, names, what in ((kk, keys, KEY_FIELDS, "key"), (ss, sigs, SIG_FIELDS, "signature")):
            if have == want:
                continue
            for h in sorted(have - want, key=repr):
                near = [w for w in want - have if w[0] == h[0]] or list(want - have)
                if near:
                    w = near[0]
                    f = [n for n, a, c in zip(names, h, w) if a != c]
                    j = names.index(f[0])
                    out.append(f"bundle {bid}: {what} {h[0]}: {f[0]} read as {str(h[j])[:60]!r} but the document states {str(w[j])[:60]!r}")
                else:
                    out.append(f"bundle {bid}: {what} {h[0]} is not in the document")
            if not (have - want):
                out.append(f"bundle {bid}: {len(want - have)} {what}(s) of the document were not read")
    return out
