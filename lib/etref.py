"""Reference extraction with a standards-conforming XML parser (xml.etree.ElementTree)."""
from __future__ import annotations

import xml.etree.ElementTree as ET


def et_dict(text: str) -> dict:
    """Parse with ElementTree and shape the result the way kskm.common.xml_parser documents its output:
    element with attributes -> {'attrs': {...}, 'value': v}; v = stripped text or dict of children; repeated names -> list."""
    root = ET.fromstring(text.encode("utf-8"))

    def conv(e):
        children = list(e)
        if children:
            d = {}
            for c in children:
                v = conv(c)
                if c.tag in d:
                    if not isinstance(d[c.tag], list):
                        d[c.tag] = [d[c.tag]]
                    d[c.tag].append(v)
                else:
                    d[c.tag] = v
            val = d
        else:
            val = (e.text or "").strip()
        if e.attrib:
            return {"attrs": dict(e.attrib), "value": val}
        return val

    return {root.tag: conv(root)}
