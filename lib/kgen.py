"""Generators and Coq printers for keys, signatures, bundles (shared by the checks)."""
from __future__ import annotations

import base64
import datetime as dt
import types

from vlib import coq_list, coq_opt, txt, z, zlist

UTC = dt.timezone.utc
EPOCH = dt.datetime(1970, 1, 1, tzinfo=UTC)


def us(d: dt.datetime | dt.timedelta) -> int:
    """datetime -> microseconds since epoch; timedelta -> microseconds."""
    if isinstance(d, dt.datetime):
        d = d - EPOCH
    return (d.days * 86400 + d.seconds) * 1000000 + d.microseconds


def from_us(n: int) -> dt.datetime:
    return EPOCH + dt.timedelta(microseconds=n)


_HANDLES: dict = {}


def handle(b: bytes) -> str:
    """Short stand-in for a long base64 text where only equality of texts matters: [n] with n unique per text."""
    if b not in _HANDLES:
        _HANDLES[b] = len(_HANDLES) + 1
    return f"[{_HANDLES[b]}]"


def coq_key(k, with_txt=True, with_pub=True) -> str:
    """kskm Key (or duck) -> Coq mkKey literal. k.public_key is base64 bytes.
    with_txt: True = full text, 'handle' = short unique handle, False = empty."""
    pub = base64.b64decode(k.public_key) if with_pub else b""
    ptxt = handle(bytes(k.public_key)) if with_txt == "handle" else (txt(k.public_key.decode()) if with_txt else "[]")
    alg = k.algorithm.value if hasattr(k.algorithm, "value") else int(k.algorithm)
    return (f"(mkKey {txt(k.key_identifier)} {z(k.key_tag)} {z(k.ttl)} {z(k.flags)} {z(k.protocol)} {z(alg)} "
            f"{ptxt} {zlist(pub)})")


def coq_sig(s, with_data=True) -> str:
    data = base64.b64decode(s.signature_data) if with_data is True and s.signature_data else b""
    dtxt = handle(b"sig:" + bytes(s.signature_data)) if with_data == "handle" else (txt(s.signature_data.decode()) if with_data else "[]")
    alg = s.algorithm.value if hasattr(s.algorithm, "value") else int(s.algorithm)
    typ = s.type_covered.value if hasattr(s.type_covered, "value") else int(s.type_covered)
    return (f"(mkSig {txt(s.key_identifier)} {z(s.ttl)} {z(typ)} {z(alg)} {z(s.labels)} {z(s.original_ttl)} "
            f"{z(us(s.signature_expiration))} {z(us(s.signature_inception))} {z(s.key_tag)} {txt(s.signers_name)} "
            f"{dtxt} {zlist(data)})")


def coq_algpolicy(a) -> str:
    name = type(a).__name__
    if name == "AlgorithmPolicyRSA":
        return f"(APRsa {a.algorithm.value} {z(a.bits)} {z(a.exponent)})"
    if name == "AlgorithmPolicyECDSA":
        return f"(APEcdsa {a.algorithm.value} {z(a.bits)})"
    if name == "AlgorithmPolicyEdDSA":
        return f"(APEddsa {a.algorithm.value} {z(a.bits)})"
    raise ValueError(name)


def coq_sigpolicy(p, keep_order=False) -> str:
    al = list(p.algorithms) if keep_order else sorted(p.algorithms, key=lambda a: (a.algorithm.value, a.bits, getattr(a, "exponent", 0)))
    algs = "[" + ";".join(coq_algpolicy(a) for a in al) + "]"
    return (f"(mkSigPolicy {z(us(p.publish_safety))} {z(us(p.retire_safety))} {z(us(p.max_signature_validity))} "
            f"{z(us(p.min_signature_validity))} {z(us(p.max_validity_overlap))} {z(us(p.min_validity_overlap))} {algs})")


def coq_bundle(b, with_txt=True, with_data=False, with_pub=True, keep_order=False) -> str:
    ks = list(b.keys) if keep_order else sorted(b.keys, key=lambda k: (k.key_identifier, k.public_key))
    ss = list(b.signatures) if keep_order else sorted(b.signatures, key=lambda s: (s.key_identifier, s.key_tag))
    keys = "[" + ";".join(coq_key(k, with_txt, with_pub) for k in ks) + "]"
    sigs = "[" + ";".join(coq_sig(s, with_data) for s in ss) + "]"
    signers = None
    if getattr(b, "signers", None):
        signers = "[" + ";".join(txt(s.key_identifier or "") for s in sorted(b.signers, key=lambda s: s.key_identifier or "")) + "]"
    return f"(mkBundle {txt(b.id)} {z(us(b.inception))} {z(us(b.expiration))} {keys} {sigs} {coq_opt(signers)})"


def coq_request(r, **kw) -> str:
    return (f"(mkRequest {txt(r.id)} {z(r.serial)} {txt(r.domain)} {coq_sigpolicy(r.zsk_policy, kw.get('keep_order', False))} "
            f"[" + ";\n  ".join(coq_bundle(b, **kw) for b in r.bundles) + "])")


def coq_response(r, **kw) -> str:
    ko = kw.get("keep_order", False)
    return (f"(mkResponse {txt(r.id)} {z(r.serial)} {txt(r.domain)} {coq_sigpolicy(r.ksk_policy, ko)} {coq_sigpolicy(r.zsk_policy, ko)} "
            f"[" + ";\n  ".join(coq_bundle(b, **kw) for b in r.bundles) + "])")


def res_coq(r, okfmt) -> str:
    """('ok', v) | ('exc', code, name) -> Coq res literal."""
    if r[0] == "ok":
        return f"(OK {okfmt(r[1])})"
    return f"(Raise {r[1]})"


def fake_alg(n: int):
    return types.SimpleNamespace(value=n, name=f"ALG{n}")


def coq_reqpolicy(p) -> str:
    """kskm RequestPolicy -> Coq mkReqPolicy literal."""
    from kskm.common.data import AlgorithmDNSSEC
    b = coq_bool_
    approved = [AlgorithmDNSSEC[x].value for x in p.approved_algorithms]
    ndk = p.num_different_keys_in_all_bundles
    return ("(mkReqPolicy [" + ";".join(txt(d) for d in p.acceptable_domains) + f"] {z(p.num_bundles)} {b(p.validate_signatures)} "
            f"{b(p.keys_match_zsk_policy)} {b(p.rsa_exponent_match_zsk_policy)} {b(p.enable_unsupported_ecdsa)} "
            f"{b(p.enable_unsupported_edwards_dsa)} {b(p.check_cycle_length)} {z(us(p.min_cycle_inception_length))} "
            f"{z(us(p.max_cycle_inception_length))} {z(us(p.min_bundle_interval))} {z(us(p.max_bundle_interval))} "
            f"{b(p.check_bundle_overlap)} {b(p.signature_algorithms_match_zsk_policy)} {zlist(approved)} "
            f"{zlist(p.rsa_approved_exponents)} {zlist(p.rsa_approved_key_sizes)} {b(p.signature_validity_match_zsk_policy)} "
            f"{b(p.check_keys_match_ksk_operator_policy)} {zlist(p.num_keys_per_bundle)} {z(ndk)} "
            f"{b(p.signature_check_expire_horizon)} {z(p.signature_horizon_days)} {b(p.check_bundle_intervals)} "
            f"{b(p.check_chain_keys)} {b(p.check_chain_keys_in_hsm)} {b(p.check_chain_overlap)} "
            f"{b(p.check_keys_publish_safety)} {b(p.check_keys_retire_safety)})")


def coq_bool_(x) -> str:
    return "true" if x else "false"
