"""Build KSR / SKR XML documents and honest key material, independently of kskm.

Everything here is reference-side: RFC 4034 key tag and signature data, RFC 3110 / 6605 key encodings,
PKCS#1 v1.5 / ECDSA signing through `cryptography`. Nothing imports kskm.
"""
from __future__ import annotations

import base64
import datetime as dt
import json
import os
import struct
from pathlib import Path

from cryptography.hazmat.primitives import hashes, serialization
from cryptography.hazmat.primitives.asymmetric import ec, padding, rsa
from cryptography.hazmat.primitives.asymmetric.utils import decode_dss_signature

UTC = dt.timezone.utc
CACHE = Path(__file__).resolve().parent.parent / "cache"


# ------------------------------------------------------------------ key pool
class KeyPool:
    """Deterministic-per-cache pool of private keys (generated once, stored as PEM under cache/)."""

    def __init__(self):
        CACHE.mkdir(exist_ok=True)
        self.path = CACHE / "keypool.json"
        self.data = json.loads(self.path.read_text()) if self.path.exists() else {}
        self.objs = {}
        self.dirty = False

    def _get(self, name, gen):
        if name not in self.objs:
            if name not in self.data:
                k = gen()
                self.data[name] = k.private_bytes(serialization.Encoding.PEM, serialization.PrivateFormat.PKCS8,
                                                  serialization.NoEncryption()).decode()
                self.dirty = True
            self.objs[name] = serialization.load_pem_private_key(self.data[name].encode(), None)
        return self.objs[name]

    def rsa(self, bits=1024, e=65537, idx=0):
        return self._get(f"rsa-{bits}-{e}-{idx}", lambda: _gen_rsa(e, bits))

    def rsa_ending(self, last: int, bits=1024, idx=0):
        """An RSA key (e = 65537) whose modulus - hence its RFC 3110 public key field - ends with the given octet (e.g. 0x0d, 0x09, 0x0b: octets
        that str/bytes.strip() would take for white space)."""
        def gen():
            while True:
                k = _gen_rsa(65537, bits)
                if k.public_key().public_numbers().n % 256 == last:
                    return k
        return self._get(f"rsa-{bits}-ending-{last:02x}-{idx}", gen)

    def ec(self, curve=256, idx=0):
        c = ec.SECP256R1() if curve == 256 else ec.SECP384R1()
        return self._get(f"ec-{curve}-{idx}", lambda: ec.generate_private_key(c))

    def ec_with_tag(self, alg=13, flags=257, tag=65535):
        """An EC key whose DNSKEY key tag (for the given flags/algorithm) is exactly `tag` (random search, ~65536 tries, cached)."""
        name = f"ec-tag-{alg}-{flags}-{tag}"
        if name not in self.data:
            curve = ec.SECP256R1() if alg == 13 else ec.SECP384R1()
            while True:
                k = ec.generate_private_key(curve)
                if keytag(rdata(flags, 3, alg, rfc6605(k.public_key()))) == tag:
                    self.data[name] = k.private_bytes(serialization.Encoding.PEM, serialization.PrivateFormat.PKCS8, serialization.NoEncryption()).decode()
                    self.dirty = True
                    break
        return self._get(name, None)

    def ec_ds_prefix(self, alg=13, flags=257, zero_nibbles=1):
        """An EC key whose DS SHA-256 digest (owner '.', given flags/algorithm) starts with `zero_nibbles` zero hex digits (random search, cached)."""
        import hashlib
        name = f"ec-ds0-{alg}-{flags}-{zero_nibbles}"
        if name not in self.data:
            curve = ec.SECP256R1() if alg == 13 else ec.SECP384R1()
            while True:
                k = ec.generate_private_key(curve)
                if hashlib.sha256(b"\x00" + rdata(flags, 3, alg, rfc6605(k.public_key()))).hexdigest().startswith("0" * zero_nibbles):
                    self.data[name] = k.private_bytes(serialization.Encoding.PEM, serialization.PrivateFormat.PKCS8, serialization.NoEncryption()).decode()
                    self.dirty = True
                    break
        return self._get(name, None)

    def rsa_tag_collision(self, alg=8, flags=256, bits=1024):
        """Two distinct RSA keys (e = 65537) whose DNSKEY key tags (for the given flags/algorithm) are equal (birthday search, cached)."""
        names = (f"rsa-coll-{alg}-{flags}-{bits}-a", f"rsa-coll-{alg}-{flags}-{bits}-b")
        if names[0] not in self.data or names[1] not in self.data:
            seen = {}
            while True:
                k = _gen_rsa(65537, bits)
                t = keytag(rdata(flags, 3, alg, rfc3110(k.public_key())))
                if t in seen:
                    for nm, key in zip(names, (seen[t], k)):
                        self.data[nm] = key.private_bytes(serialization.Encoding.PEM, serialization.PrivateFormat.PKCS8,
                                                          serialization.NoEncryption()).decode()
                    self.dirty = True
                    break
                seen[t] = k
        return tuple(self._get(nm, None) for nm in names)

    def ec_tag_collision(self, alg=13, flags=256):
        """Two distinct EC keys whose DNSKEY key tags (for the given flags/algorithm) are equal (birthday search, cached)."""
        names = (f"ec-coll-{alg}-{flags}-a", f"ec-coll-{alg}-{flags}-b")
        if names[0] not in self.data or names[1] not in self.data:
            curve = ec.SECP256R1() if alg == 13 else ec.SECP384R1()
            seen = {}
            while True:
                k = ec.generate_private_key(curve)
                t = keytag(rdata(flags, 3, alg, rfc6605(k.public_key())))
                if t in seen:
                    for nm, key in zip(names, (seen[t], k)):
                        self.data[nm] = key.private_bytes(serialization.Encoding.PEM, serialization.PrivateFormat.PKCS8,
                                                          serialization.NoEncryption()).decode()
                    self.dirty = True
                    break
                seen[t] = k
        return tuple(self._get(nm, None) for nm in names)

    def ec_tag_carry(self, alg=13, flags=257):
        """An EC key whose RFC 4034 App. B accumulator needs the final carry to be DISCARDED:
        (sum & 0xFFFF) + (sum >> 16) > 0xFFFF, so a checksum-style fold gives tag + 1. (about 1 key in 3000; cached)"""
        name = f"ec-carry-{alg}-{flags}"
        if name not in self.data:
            curve = ec.SECP256R1() if alg == 13 else ec.SECP384R1()
            while True:
                k = ec.generate_private_key(curve)
                rd = rdata(flags, 3, alg, rfc6605(k.public_key()))
                acc = sum(b if i & 1 else b << 8 for i, b in enumerate(rd))
                if (acc & 0xFFFF) + (acc >> 16) > 0xFFFF:
                    self.data[name] = k.private_bytes(serialization.Encoding.PEM, serialization.PrivateFormat.PKCS8, serialization.NoEncryption()).decode()
                    self.dirty = True
                    break
        return self._get(name, None)

    def ec_x_first(self, alg=13, first=4, idx=0):
        """An EC key whose X coordinate begins with the given octet (0x04: looks like a SEC1 prefix when X|Y is handled without one; 1 key in 256; cached)"""
        name = f"ec-x-first-{alg}-{first}-{idx}"
        if name not in self.data:
            curve = ec.SECP256R1() if alg == 13 else ec.SECP384R1()
            n = 32 if alg == 13 else 48
            while True:
                k = ec.generate_private_key(curve)
                if k.public_key().public_numbers().x.to_bytes(n, "big")[0] == first:
                    self.data[name] = k.private_bytes(serialization.Encoding.PEM, serialization.PrivateFormat.PKCS8, serialization.NoEncryption()).decode()
                    self.dirty = True
                    break
        return self._get(name, None)

    def ec_x_lenlike(self, alg=13):
        """An EC key whose X coordinate begins with the octet a DER OCTET STRING wrapper of the point would carry as its length
        (0x3f for P-256 = 65-2, 0x5f for P-384), second octet not 0x04: as a bare point 04|X|Y it must still be read as a bare point (1 key in 256; cached)"""
        name = f"ec-x-lenlike-{alg}"
        if name not in self.data:
            curve = ec.SECP256R1() if alg == 13 else ec.SECP384R1()
            n = 32 if alg == 13 else 48
            while True:
                k = ec.generate_private_key(curve)
                x = k.public_key().public_numbers().x.to_bytes(n, "big")
                if x[0] == 2 * n - 1 and x[1] != 4:
                    self.data[name] = k.private_bytes(serialization.Encoding.PEM, serialization.PrivateFormat.PKCS8, serialization.NoEncryption()).decode()
                    self.dirty = True
                    break
        return self._get(name, None)

    def ec_revoke_carry(self, alg=13):
        """An EC KSK for which setting the REVOKE bit carries: low 16 bits of the accumulator of RDATA(257) >= 0xFF80,
        so the revoked key's tag is tag + 129, not tag + 128 (about 1 key in 512; cached)"""
        name = f"ec-revoke-carry-{alg}"
        if name not in self.data:
            curve = ec.SECP256R1() if alg == 13 else ec.SECP384R1()
            while True:
                k = ec.generate_private_key(curve)
                rd = rdata(257, 3, alg, rfc6605(k.public_key()))
                acc = sum(b if i & 1 else b << 8 for i, b in enumerate(rd))
                if (acc & 0xFFFF) >= 0xFF80:
                    self.data[name] = k.private_bytes(serialization.Encoding.PEM, serialization.PrivateFormat.PKCS8, serialization.NoEncryption()).decode()
                    self.dirty = True
                    break
        return self._get(name, None)

    def save(self):
        if self.dirty:
            tmp = self.path.with_suffix(f".{os.getpid()}.tmp")
            tmp.write_text(json.dumps(self.data))
            os.replace(tmp, self.path)
            self.dirty = False


def _gen_rsa(e: int, bits: int):
    """RSA key with an arbitrary odd public exponent (cryptography only generates e = 3 / 65537 itself)."""
    if e in (3, 65537):
        return rsa.generate_private_key(e, bits)
    import math
    while True:
        k = rsa.generate_private_key(65537, bits)
        pn = k.private_numbers()
        phi = (pn.p - 1) * (pn.q - 1)
        if math.gcd(e, phi) == 1:
            d = pow(e, -1, phi)
            return rsa.RSAPrivateNumbers(pn.p, pn.q, d, d % (pn.p - 1), d % (pn.q - 1), pn.iqmp,
                                         rsa.RSAPublicNumbers(e, pn.public_numbers.n)).private_key()


POOL = KeyPool()


# ------------------------------------------------------------------ RFC reference encodings
def rfc3110(pub: rsa.RSAPublicKey) -> bytes:
    nums = pub.public_numbers()
    e = nums.e.to_bytes((nums.e.bit_length() + 7) // 8, "big")
    n = nums.n.to_bytes((nums.n.bit_length() + 7) // 8, "big")
    hdr = bytes([len(e)]) if len(e) <= 255 else b"\x00" + struct.pack("!H", len(e))
    return hdr + e + n


def rfc6605(pub: ec.EllipticCurvePublicKey) -> bytes:
    pt = pub.public_bytes(serialization.Encoding.X962, serialization.PublicFormat.UncompressedPoint)
    return pt[1:]


def pub_bytes(priv) -> bytes:
    pub = priv.public_key()
    return rfc3110(pub) if isinstance(pub, rsa.RSAPublicKey) else rfc6605(pub)


def rdata(flags: int, proto: int, alg: int, pub: bytes) -> bytes:
    return struct.pack("!HBB", flags, proto, alg) + pub


def keytag(rd: bytes) -> int:
    ac = 0
    for i, b in enumerate(rd):
        ac += b if i & 1 else b << 8
    ac += (ac >> 16) & 0xFFFF
    return ac & 0xFFFF


def ts(d: dt.datetime) -> int:
    return int((d - dt.datetime(1970, 1, 1, tzinfo=UTC)).total_seconds())


def ref_tbs(sig: dict, keys: list[dict]) -> bytes:
    """RFC 4034 3.1.8.1 signature data for the root DNSKEY RRset. sig/keys are the dicts used below."""
    hdr = struct.pack("!HBBIIIH", 48, sig["alg"], sig.get("labels", 0), sig["ottl"], ts(sig["exp"]), ts(sig["inc"]), sig["tag"]) + b"\x00"
    rds = sorted(rdata(k["flags"], k.get("proto", 3), k["alg"], k["pub"]) for k in keys)
    out = hdr
    for rd in rds:
        out += b"\x00" + struct.pack("!HHIH", 48, 1, sig["ottl"], len(rd)) + rd
    return out


HASH = {5: hashes.SHA1, 8: hashes.SHA256, 10: hashes.SHA512, 13: hashes.SHA256, 14: hashes.SHA384}


def sign_raw(priv, alg: int, data: bytes) -> bytes:
    if isinstance(priv, rsa.RSAPrivateKey):
        return priv.sign(data, padding.PKCS1v15(), HASH[alg]())
    der = priv.sign(data, ec.ECDSA(HASH[alg]()))
    r, s = decode_dss_signature(der)
    n = 32 if alg == 13 else 48
    return r.to_bytes(n, "big") + s.to_bytes(n, "big")


def verify_raw(pubbytes: bytes, alg: int, data: bytes, sig: bytes) -> bool:
    """Independent verification of an RRSIG signature value (RFC 3110 / 6605 keys)."""
    from cryptography.exceptions import InvalidSignature
    from cryptography.hazmat.primitives.asymmetric.utils import encode_dss_signature
    try:
        if alg in (5, 8, 10):
            if pubbytes[0] == 0:
                el = struct.unpack("!H", pubbytes[1:3])[0]
                rest = pubbytes[3:]
            else:
                el = pubbytes[0]
                rest = pubbytes[1:]
            e = int.from_bytes(rest[:el], "big")
            n = int.from_bytes(rest[el:], "big")
            rsa.RSAPublicNumbers(e, n).public_key().verify(sig, data, padding.PKCS1v15(), HASH[alg]())
        else:
            curve = ec.SECP256R1() if alg == 13 else ec.SECP384R1()
            pk = ec.EllipticCurvePublicKey.from_encoded_point(curve, b"\x04" + pubbytes)
            h = len(sig) // 2
            pk.verify(encode_dss_signature(int.from_bytes(sig[:h], "big"), int.from_bytes(sig[h:], "big")), data, ec.ECDSA(HASH[alg]()))
        return True
    except (InvalidSignature, ValueError, IndexError, struct.error):
        return False


# ------------------------------------------------------------------ document-level helpers
def mk_key(priv, alg=8, flags=256, ttl=172800, ident=None, proto=3) -> dict:
    pub = pub_bytes(priv)
    tag = keytag(rdata(flags, proto, alg, pub))
    return {"id": ident or f"ZSK-{tag}", "tag": tag, "ttl": ttl, "flags": flags, "proto": proto, "alg": alg, "pub": pub, "priv": priv}


def mk_sig(signer: dict, keys: list[dict], inc: dt.datetime, exp: dt.datetime, ottl=None, ttl=None, labels=0) -> dict:
    ottl = signer["ttl"] if ottl is None else ottl
    s = {"id": signer["id"], "ttl": ottl if ttl is None else ttl, "alg": signer["alg"], "labels": labels, "ottl": ottl,
         "exp": exp, "inc": inc, "tag": signer["tag"], "name": "."}
    s["data"] = sign_raw(signer["priv"], signer["alg"], ref_tbs(s, keys))
    return s


TS_SUFFIX = "+00:00"      # the archived KSRs write timestamps without an offset ("" here); both forms mean UTC


def fmt_dt(d: dt.datetime) -> str:
    return d.astimezone(UTC).strftime("%Y-%m-%dT%H:%M:%S") + TS_SUFFIX


import contextlib


@contextlib.contextmanager
def process_zone(tz, suffix):
    """Run a block with the process time zone TZ=tz (None: unchanged) and timestamps written with the given suffix ('' = no offset)."""
    import os
    import time
    global TS_SUFFIX
    old_tz, old_suffix = os.environ.get("TZ"), TS_SUFFIX
    if tz is not None:
        os.environ["TZ"] = tz
        time.tzset()
    TS_SUFFIX = suffix
    try:
        yield
    finally:
        TS_SUFFIX = old_suffix
        if tz is not None:
            if old_tz is None:
                os.environ.pop("TZ", None)
            else:
                os.environ["TZ"] = old_tz
            time.tzset()


def fmt_dur(td: dt.timedelta) -> str:
    """ISO 8601 duration (reference writer, independent of kskm)."""
    total = int(td.total_seconds())
    if total == 0:
        return "PT0S"
    d, rem = divmod(total, 86400)
    h, rem = divmod(rem, 3600)
    m, s = divmod(rem, 60)
    out = "P" + (f"{d}D" if d else "")
    if h or m or s:
        out += "T" + (f"{h}H" if h else "") + (f"{m}M" if m else "") + (f"{s}S" if s else "")
    return out


def fmt_dur_as(td: dt.timedelta, style: str) -> str:
    """The same period in another ISO 8601 notation: 'weeks' (P1W4D), 'hours' (PT264H), 'minutes', 'seconds', 'days-hours' (P10DT24H); 'days' = fmt_dur."""
    total = int(td.total_seconds())
    if style == "weeks" and total >= 7 * 86400:
        w, rem = divmod(total, 7 * 86400)
        rest = fmt_dur(dt.timedelta(seconds=rem))[1:] if rem else ""
        return f"P{w}W{rest}"
    if style == "hours" and total % 3600 == 0:
        return f"PT{total // 3600}H"
    if style == "minutes" and total % 60 == 0:
        return f"PT{total // 60}M"
    if style == "seconds":
        return f"PT{total}S"
    if style == "days-hours" and total >= 86400:
        return fmt_dur(dt.timedelta(seconds=total - 86400))[:] .split("T")[0] + "T24H" if (total - 86400) % 86400 == 0 else fmt_dur(td)
    return fmt_dur(td)


def xml_key(k: dict, ind="      ") -> str:
    return (f'{ind}<Key keyIdentifier="{k["id"]}" keyTag="{k["tag"]}">\n'
            f"{ind}  <TTL>{k['ttl']}</TTL>\n{ind}  <Flags>{k['flags']}</Flags>\n{ind}  <Protocol>{k.get('proto', 3)}</Protocol>\n"
            f"{ind}  <Algorithm>{k['alg']}</Algorithm>\n{ind}  <PublicKey>{base64.b64encode(k['pub']).decode()}</PublicKey>\n{ind}</Key>\n")


def xml_sig(s: dict, ind="      ") -> str:
    return (f'{ind}<Signature keyIdentifier="{s["id"]}">\n'
            f"{ind}  <TTL>{s['ttl']}</TTL>\n{ind}  <TypeCovered>DNSKEY</TypeCovered>\n{ind}  <Algorithm>{s['alg']}</Algorithm>\n"
            f"{ind}  <Labels>{s['labels']}</Labels>\n{ind}  <OriginalTTL>{s['ottl']}</OriginalTTL>\n"
            f"{ind}  <SignatureExpiration>{fmt_dt(s['exp'])}</SignatureExpiration>\n"
            f"{ind}  <SignatureInception>{fmt_dt(s['inc'])}</SignatureInception>\n"
            f"{ind}  <KeyTag>{s['tag']}</KeyTag>\n{ind}  <SignersName>{s['name']}</SignersName>\n"
            f"{ind}  <SignatureData>{base64.b64encode(s['data']).decode()}</SignatureData>\n{ind}</Signature>\n")


# notation of the periods in a written policy: None = fmt_dur; otherwise a function returning a fmt_dur_as style per period
# (the same period in another ISO 8601 spelling - P2W1D, PT360H, P14DT24H - is the same declared bound)
POLICY_DUR_STYLE = [None]


def _pol_dur(td: dt.timedelta) -> str:
    return fmt_dur(td) if POLICY_DUR_STYLE[0] is None else fmt_dur_as(td, POLICY_DUR_STYLE[0]())


def xml_policy(name: str, pol: dict, ind="      ") -> str:
    out = f"{ind}<{name}>\n"
    for tag, key in [("PublishSafety", "publish_safety"), ("RetireSafety", "retire_safety"), ("MaxSignatureValidity", "max_validity"),
                     ("MinSignatureValidity", "min_validity"), ("MaxValidityOverlap", "max_overlap"), ("MinValidityOverlap", "min_overlap")]:
        out += f"{ind}  <{tag}>{_pol_dur(pol[key])}</{tag}>\n"
    for a in pol["algs"]:
        if a[0] == "RSA":
            out += f'{ind}  <SignatureAlgorithm algorithm="{a[1]}">\n{ind}    <RSA size="{a[2]}" exponent="{a[3]}"/>\n{ind}  </SignatureAlgorithm>\n'
        elif a[0] == "ECDSA":
            out += f'{ind}  <SignatureAlgorithm algorithm="{a[1]}">\n{ind}    <ECDSA size="{a[2]}"/>\n{ind}  </SignatureAlgorithm>\n'
        elif a[0] == "EdDSA":
            out += f'{ind}  <SignatureAlgorithm algorithm="{a[1]}">\n{ind}    <EdDSA size="{a[2]}"/>\n{ind}  </SignatureAlgorithm>\n'
    out += f"{ind}</{name}>\n"
    return out


def render_ksr(req: dict) -> str:
    """req: {id, serial, domain, zsk: policy dict, bundles: [{id, inc, exp, keys, sigs, signers?}], timestamp?}"""
    tsattr = f' timestamp="{fmt_dt(req["timestamp"])}"' if req.get("timestamp") else ""
    out = ('<?xml version="1.0" encoding="UTF-8"?>\n<!-- generated by verif/lib/ksrxml.py -->\n'
           f'<KSR id="{req["id"]}" domain="{req["domain"]}" serial="{req["serial"]}"{tsattr}>\n  <Request>\n    <RequestPolicy>\n')
    out += xml_policy("ZSK", req["zsk"])
    out += "    </RequestPolicy>\n"
    for b in req["bundles"]:
        out += f'    <RequestBundle id="{b["id"]}">\n      <Inception>{fmt_dt(b["inc"])}</Inception>\n      <Expiration>{fmt_dt(b["exp"])}</Expiration>\n'
        for k in b["keys"]:
            out += xml_key(k)
        for s in b["sigs"]:
            out += xml_sig(s)
        for sg in b.get("signers") or []:
            out += f'      <Signer keyIdentifier="{sg}"/>\n'
        out += "    </RequestBundle>\n"
    out += "  </Request>\n</KSR>\n"
    return out


def default_zsk_policy(**kw) -> dict:
    D = dt.timedelta
    p = {"publish_safety": D(days=10), "retire_safety": D(days=10), "max_validity": D(days=21), "min_validity": D(days=21),
         "max_overlap": D(days=12), "min_overlap": D(days=9), "algs": [("RSA", 8, 1024, 65537)]}
    p.update(kw)
    return p


def render_skr(resp: dict) -> str:
    """resp: {id, serial, domain, ksk: policy, zsk: policy, bundles: [{id, inc, exp, keys, sigs}]} (reference SKR writer)."""
    out = ('<?xml version="1.0" encoding="UTF-8"?>\n'
           f'<KSR id="{resp["id"]}" domain="{resp["domain"]}" serial="{resp["serial"]}">\n  <Response>\n    <ResponsePolicy>\n')
    out += xml_policy("KSK", resp["ksk"])
    out += xml_policy("ZSK", resp["zsk"])
    out += "    </ResponsePolicy>\n"
    for b in resp["bundles"]:
        out += f'    <ResponseBundle id="{b["id"]}">\n      <Inception>{fmt_dt(b["inc"])}</Inception>\n      <Expiration>{fmt_dt(b["exp"])}</Expiration>\n'
        for k in b["keys"]:
            out += xml_key(k)
        for s in b["sigs"]:
            out += xml_sig(s)
        out += "    </ResponseBundle>\n"
    out += "  </Response>\n</KSR>\n"
    return out


# ------------------------------------------------------------------ generic plain-form rendering with layout freedom
def ksr_tree(req: dict):
    """(name, attrs, children|text) tree of a KSR request dict."""
    def pol(name, p):
        ch = [(t, [], fmt_dur(p[k])) for t, k in [("PublishSafety", "publish_safety"), ("RetireSafety", "retire_safety"),
                                                  ("MaxSignatureValidity", "max_validity"), ("MinSignatureValidity", "min_validity"),
                                                  ("MaxValidityOverlap", "max_overlap"), ("MinValidityOverlap", "min_overlap")]]
        for a in p["algs"]:
            inner = ("RSA", [("size", str(a[2])), ("exponent", str(a[3]))], "") if a[0] == "RSA" else (a[0], [("size", str(a[2]))], "")
            ch.append(("SignatureAlgorithm", [("algorithm", str(a[1]))], [inner]))
        return (name, [], ch)

    def key(k):
        return ("Key", [("keyIdentifier", k["id"]), ("keyTag", str(k["tag"]))],
                [("TTL", [], str(k["ttl"])), ("Flags", [], str(k["flags"])), ("Protocol", [], str(k.get("proto", 3))),
                 ("Algorithm", [], str(k["alg"])), ("PublicKey", [], base64.b64encode(k["pub"]).decode())])

    def sig(s):
        return ("Signature", [("keyIdentifier", s["id"])],
                [("TTL", [], str(s["ttl"])), ("TypeCovered", [], "DNSKEY"), ("Algorithm", [], str(s["alg"])), ("Labels", [], str(s["labels"])),
                 ("OriginalTTL", [], str(s["ottl"])), ("SignatureExpiration", [], fmt_dt(s["exp"])), ("SignatureInception", [], fmt_dt(s["inc"])),
                 ("KeyTag", [], str(s["tag"])), ("SignersName", [], s["name"]), ("SignatureData", [], base64.b64encode(s["data"]).decode())])

    bundles = []
    for b in req["bundles"]:
        ch = [("Inception", [], fmt_dt(b["inc"])), ("Expiration", [], fmt_dt(b["exp"]))] + [key(k) for k in b["keys"]] + [sig(s) for s in b["sigs"]]
        ch += [("Signer", [("keyIdentifier", x)], "") for x in (b.get("signers") or [])]
        bundles.append(("RequestBundle", [("id", b["id"])], ch))
    attrs = [("id", req["id"]), ("domain", req["domain"]), ("serial", str(req["serial"]))]
    if req.get("timestamp"):
        attrs.append(("timestamp", fmt_dt(req["timestamp"])))
    return ("KSR", attrs, [("Request", [], [("RequestPolicy", [], [pol("ZSK", req["zsk"])])] + bundles)])


def skr_tree(resp: dict):
    t = ksr_tree({**resp, "bundles": resp["bundles"]})
    name, attrs, (request,) = t
    _, _, rch = request
    pol_zsk = rch[0][2][0]
    ksk = ksr_tree({**resp, "zsk": resp["ksk"], "bundles": []})[2][0][2][0][2][0]
    bundles = [("ResponseBundle", a, c) for (_, a, c) in rch[1:]]
    return (name, attrs, [("Response", [], [("ResponsePolicy", [], [("KSK", [], ksk[2]), pol_zsk])] + bundles)])


def render_tree(t, R=None, permute=False, tail_blanks=True, wrap=False) -> str:
    """Plain-form serialisation with random layout (R = random.Random or None for a canonical layout)."""
    name, attrs, body = t
    ws_in = (lambda: R.choice([" ", " ", "  ", "\t", " \t "])) if R else (lambda: " ")
    ws_opt = (lambda: R.choice(["", "", " ", "\t", "  "])) if R else (lambda: "")
    ws_el = (lambda: R.choice(["", " ", "\n", "\n  ", "\t", "\r\n", "\n\n    "])) if R else (lambda: "\n")
    attrs = list(attrs)
    if R and permute:
        R.shuffle(attrs)
    astr = "".join(ws_in() + f'{k}="{v}"' for k, v in attrs)
    tail = ws_opt() if attrs and tail_blanks else ""
    if body == "" or body == []:
        if attrs and (not R or R.random() < 0.5):
            return f"<{name}{astr}{tail}/>"
        return f"<{name}{astr}{tail}></{name}>"
    if isinstance(body, str):
        pad = ws_el if R else (lambda: "")
        if R and wrap and name in ("PublicKey", "SignatureData") and len(body) > 40:
            # xsd:base64Binary may be broken into lines (as mail and PEM tools do): the value is the same. One key is written the same way wherever it occurs.
            import zlib
            w, sep = [(64, "\n"), (76, "\n"), (64, "\n        "), (76, "\n\t"), (4, " "), (10**6, "")][zlib.crc32(body.encode()) % 6]
            body = sep.join(body[i:i + w] for i in range(0, len(body), w))
        return f"<{name}{astr}{tail}>{pad()}{body}{pad()}</{name}>"
    children = list(body)
    if R and permute:
        R.shuffle(children)
    inner = "".join(ws_el() + render_tree(c, R, permute, tail_blanks, wrap) for c in children)
    return f"<{name}{astr}{tail}>{inner}{ws_el()}</{name}>"
