"""Watchdog-supervised execution of the real loaders: each input runs in a forked worker that is
killed when it exceeds the budget (a signal cannot interrupt a single long regex match)."""
from __future__ import annotations

import multiprocessing as mp
import contextlib
import os
import tempfile
import time

import vlib


def _serve(conn, workdir):
    """Worker loop: receives (kind, bytes) and answers (outcome, class, detail, seconds)."""
    import logging
    logging.disable(logging.CRITICAL)
    vlib.setup_impl_path()
    import kskm.ksr.load as kload
    import kskm.ksr.validate as kval
    import kskm.skr.load as sload
    import kskm.skr.validate as sval
    from kskm.common.config_misc import RequestPolicy, ResponsePolicy

    validated = {"ok": False}
    orig_vr, orig_vs = kload.validate_request, sload.validate_response

    def vr(req, pol):
        r = orig_vr(req, pol)
        validated["ok"] = (r is True)
        validated["id"] = id(req)
        return r

    def vs(resp, pol):
        r = orig_vs(resp, pol)
        validated["ok"] = (r is True)
        validated["id"] = id(resp)
        return r

    kload.validate_request = vr
    sload.validate_response = vs
    reads = {"n": 0}

    class Tracked:
        def __init__(self, f):
            self.f = f

        def read(self, *a):
            reads["n"] += 1
            return self.f.read(*a)

        def fileno(self):
            return self.f.fileno()

        def __enter__(self):
            return self

        def __exit__(self, *a):
            self.f.close()

    def topen(*a, **k):
        return Tracked(open(*a, **k))

    kload.open = topen
    sload.open = topen
    while True:
        msg = conn.recv()
        if msg is None:
            break
        kind, data, opts = msg
        path = os.path.join(workdir, f"in-{os.getpid()}.xml")
        with open(path, "wb") as f:
            f.write(data)
        validated["ok"] = False
        validated["id"] = None
        reads["n"] = 0
        t0 = time.time()
        try:
            opts = dict(opts or {})
            log_contents = bool(opts.pop("log_contents", False))        # the tools' --log-ksr-contents / --log-previous-skr-contents switches
            debug_ctx = vlib.debug_logging() if opts.pop("debug", False) else contextlib.nullcontext()      # the tools' --debug switch
            if kind == "ksr":
                pol = RequestPolicy(**opts) if opts else RequestPolicy()
                with debug_ctx:
                    obj = kload.load_ksr(path, pol, raise_original=True, log_contents=log_contents)
            else:
                pol = ResponsePolicy(**opts) if opts else ResponsePolicy()
                with debug_ctx:
                    obj = sload.load_skr(path, pol, log_contents=log_contents)
            ok_validated = validated["ok"] and validated["id"] == id(obj)
            # "full validation" includes the signatures (when the policy asks for them): each is re-verified here with the cryptography library alone,
            # under the key the returned object itself lists for the signature's identifier
            sig_ok = None
            if getattr(pol, "validate_signatures", True):
                import specs
                sig_ok = True
                for b in obj.bundles:
                    keys = [specs.keyd(k) for k in b.keys]
                    for s_ in b.signatures:
                        try:
                            if not specs.sig_verdict(specs.sigd(s_), keys)[1]:
                                sig_ok = False
                        except Exception:  # noqa: BLE001
                            sig_ok = False
            out = ("object", type(obj).__name__, {"validated": ok_validated, "reads": reads["n"], "bundles": len(obj.bundles), "signatures_verify": sig_ok}, time.time() - t0)
        except RecursionError:
            out = ("exception", "RecursionError", {"reads": reads["n"]}, time.time() - t0)
        except MemoryError:
            out = ("exception", "MemoryError", {"reads": reads["n"]}, time.time() - t0)
        except Exception as e:  # noqa: BLE001
            out = ("exception", type(e).__name__, {"reads": reads["n"], "msg": str(e)[:120]}, time.time() - t0)
        conn.send(out)


class Watchdog:
    def __init__(self, budget=10.0):
        self.budget = budget
        self.ctx = mp.get_context("fork")
        vlib.WORK.mkdir(exist_ok=True)
        self.workdir = tempfile.mkdtemp(prefix="loadw-", dir=str(vlib.WORK))
        self.proc = None
        self.conn = None

    def _start(self):
        parent, child = self.ctx.Pipe()
        self.proc = self.ctx.Process(target=_serve, args=(child, self.workdir), daemon=True)
        self.proc.start()
        self.conn = parent

    def run(self, kind: str, data: bytes, opts: dict | None = None):
        if self.proc is None or not self.proc.is_alive():
            self._start()
        self.conn.send((kind, data, opts))
        # the budget is CPU time of the worker (so that a busy machine does not turn a prompt load into a timeout), with a wall-clock ceiling
        cpu0, wall0 = self._cpu(), time.time()
        while True:
            if self.conn.poll(0.2):
                try:
                    return self.conn.recv()
                except EOFError:
                    self.proc = None
                    return ("crash", "worker died", {}, 0.0)
            if self._cpu() - cpu0 > self.budget or time.time() - wall0 > 6 * self.budget:
                break
        self.proc.kill()
        self.proc.join()
        self.proc = None
        return ("timeout", f"> {self.budget}s", {}, self.budget)

    def _cpu(self) -> float:
        try:
            f = open(f"/proc/{self.proc.pid}/stat").read().rsplit(")", 1)[1].split()
            return (int(f[11]) + int(f[12])) / os.sysconf("SC_CLK_TCK")
        except Exception:  # noqa: BLE001
            return 0.0

    def close(self):
        import shutil
        try:
            if self.proc is not None and self.proc.is_alive():
                self.conn.send(None)
                self.proc.join(2)
                if self.proc.is_alive():
                    self.proc.kill()
        finally:
            shutil.rmtree(self.workdir, ignore_errors=True)
