"""Shared case machinery for C06 / C07 (/C20): judge a KSR with the implementation, the spec transcription and the Coq model."""
from __future__ import annotations

import datetime as dt

import specs
import etread
import vlib
from kgen import coq_reqpolicy, coq_request, handle, us
from vlib import z, zlist

UTC = dt.timezone.utc
NOW = dt.datetime(2026, 3, 1, 12, 0, 0, tzinfo=UTC)


class PinnedDT(dt.datetime):
    pinned = NOW

    @classmethod
    def now(cls, tz=None):
        return cls.pinned


class Cases:
    def __init__(self):
        self.cases: list[str] = []
        self.meta: list[dict] = []
        self.hist: dict[str, int] = {}
        self.accepts = 0
        self.load_rejects = 0
        import kskm.ksr.verify_policy as vp
        self.vp = vp
        self._orig = vp.datetime
        vp.datetime = PinnedDT

    def close(self):
        self.vp.datetime = self._orig

    def judge(self, kind, pol, xml=None, req=None, now=NOW, strict=True, desc=None, expect_load_error=False, built=None):
        """built: 'accept' | 'reject' | None - what the document was built to be (honest / tampered), independent of any parsing"""
        """Either xml (parsed by the implementation) or a ready kskm Request object."""
        from kskm.ksr.load import request_from_xml
        from kskm.ksr.validate import validate_request
        self.hist[kind] = self.hist.get(kind, 0) + 1
        if req is None:
            lr = vlib.run_impl(request_from_xml, xml)
            if lr[0] != "ok":
                # rejected by the loader: the property's "rejected" outcome; nothing for the model to judge
                self.load_rejects += 1
                self.meta.append({"kind": kind, "desc": {**(desc or {}), "loader": lr[2]}, "spec_ok": built != "accept",
                                  "spec_msg": f"an honestly generated request is refused by the loader ({lr[2]})", "key": None, "no_case": True, "xml": xml})
                return None
            req = lr[1]
        PinnedDT.pinned = now
        self.n_judged = getattr(self, "n_judged", 0) + 1
        if self.n_judged % 4 == 3:
            with vlib.debug_logging():          # every fourth request is judged as the tools' --debug switch would have it: the verdict does not depend on what is logged
                r = vlib.run_impl(validate_request, req, pol)
        else:
            r = vlib.run_impl(validate_request, req, pol)
        acc = r[0] == "ok"
        self.accepts += acc
        want = specs.validate(now, pol, req)
        rows = []
        if pol.validate_signatures:
            for b in req.bundles:
                keys = [specs.keyd(k) for k in b.keys]
                for s in b.signatures:
                    sd = specs.sigd(s)
                    tbs, verdict = specs.sig_verdict(sd, keys)
                    rows.append(f"({handle(b'sig:' + bytes(s.signature_data))}, {zlist(tbs)}, {vlib.coq_bool(verdict)})")
        coq = (f"({z(us(now))}, {coq_reqpolicy(pol)}, "
               f"{coq_request(req, with_txt='handle', with_data='handle', with_pub=True, keep_order=True)}, "
               f"[{';'.join(rows)}], {vlib.coq_bool(strict)}, {'OK tt' if acc else f'Raise {r[1]}'})")
        self.cases.append(coq)
        d = {"impl": "accept" if acc else r[2], "spec": "accept" if want else "reject"}
        if desc:
            d.update(desc)
        if xml is not None:
            d["xml_len"] = len(xml)
        ok, msg = acc == want, f"implementation {'accepts' if acc else 'rejects (' + r[2] + ')'} but the documented rules say {'accept' if want else 'reject'}"
        if ok and xml is not None:
            # the verdict is about the document: the values judged must be the ones it states (read independently with ElementTree)
            mis = etread.misread(xml, req)
            if mis:
                ok, msg = False, "the request is judged on values the document does not state: " + "; ".join(mis[:3])
        if ok and built is not None and acc != (built == "accept"):
            ok, msg = False, (f"an honestly generated request is rejected ({r[2]})" if built == "accept" else "a tampered request is accepted")
        self.meta.append({"kind": kind, "desc": d, "spec_ok": ok, "key": None, "xml": xml, "spec_msg": msg})
        return acc

    def run(self, rep, props, prop_id, shard=60):
        ok_build, log = vlib.make(["Checks/C06Check.vo"])
        runner = vlib.CaseRun(prop_id, "main", "From KV Require Import Base.Prelude Base.Exn Model.Data Model.KsrPolicy Checks.C06Check.",
                              "case", "check", shard=shard)
        results = runner.run(self.cases) if ok_build else [-1] * len(self.cases)
        for m in self.meta:
            if m.get("no_case") and not m["spec_ok"]:
                rep.violation("impl-vs-spec", f"{m['kind']}: {m['spec_msg']}", {"kind": m["kind"], "case": m["desc"], "xml": (m.get("xml") or "")[:8000]})
        meta = [m for m in self.meta if not m.get("no_case")]
        for m in meta:
            if not m["spec_ok"] and m.get("xml"):
                m["desc"]["xml"] = m["xml"]
        vlib.classify(rep, props, meta, results, self.cases, runner, "Checks.C06Check.check (validate_request)")
        runner.cleanup()
        return meta
