"""Hand translation of schema/ksr.rnc (RELAX NG compact) into a checker over an ElementTree tree (response side + request side)."""
from __future__ import annotations

import re
import xml.etree.ElementTree as ET

NNI = re.compile(r"^\s*\+?\d+\s*$")
DUR = re.compile(r"^-?P(?=\d|T\d)(\d+Y)?(\d+M)?(\d+D)?(T(?=\d)(\d+H)?(\d+M)?(\d+(\.\d+)?S)?)?$")
DT = re.compile(r"^-?\d{4,}-\d{2}-\d{2}T\d{2}:\d{2}:\d{2}(\.\d+)?(Z|[+-]\d{2}:\d{2})?$")
B64 = re.compile(r"^[A-Za-z0-9+/=\s]*$")


class SchemaError(Exception):
    pass


def nni(s, mx=None, mn=None):
    if s is None or not NNI.match(s):
        raise SchemaError(f"not a nonNegativeInteger: {s!r}")
    v = int(s)
    if mx is not None and v > mx or mn is not None and v < mn:
        raise SchemaError(f"integer out of range: {v}")


def text_of(e):
    if len(e):
        raise SchemaError(f"{e.tag}: unexpected child elements")
    return (e.text or "").strip()


def attrs(e, required, optional=()):
    for a in required:
        if a not in e.attrib:
            raise SchemaError(f"{e.tag}: missing attribute {a}")
    for a in e.attrib:
        if a not in required and a not in optional:
            raise SchemaError(f"{e.tag}: unexpected attribute {a}")


def seq(e, spec):
    """spec: list of (tag, min, max or None, checker). Children must appear in this order."""
    kids = list(e)
    i = 0
    for tag, mn, mx, chk in spec:
        n = 0
        while i < len(kids) and kids[i].tag == tag and (mx is None or n < mx):
            chk(kids[i])
            i += 1
            n += 1
        if n < mn:
            raise SchemaError(f"{e.tag}: expected {tag} (found {n})")
    if i != len(kids):
        raise SchemaError(f"{e.tag}: unexpected element {kids[i].tag}")
    if (e.text or "").strip():
        raise SchemaError(f"{e.tag}: unexpected text")


def simple(kind):
    def chk(e):
        attrs(e, ())
        t = text_of(e)
        if kind == "duration" and not DUR.match(t):
            raise SchemaError(f"{e.tag}: not an xsd:duration: {t!r}")
        if kind == "dateTime" and not DT.match(t):
            raise SchemaError(f"{e.tag}: not an xsd:dateTime: {t!r}")
        if kind == "base64" and not B64.match(t):
            raise SchemaError(f"{e.tag}: not base64")
        if isinstance(kind, tuple):
            nni(t, kind[1], kind[0])
    return chk


def sigalg(e):
    attrs(e, ("algorithm",))
    nni(e.attrib["algorithm"], 255)

    def rsa(x):
        attrs(x, ("size", "exponent")); nni(x.attrib["size"]); nni(x.attrib["exponent"])
        if len(x) or (x.text or "").strip():
            raise SchemaError("RSA not empty")

    def ecdsa(x):
        attrs(x, ("size",)); nni(x.attrib["size"])
        if len(x) or (x.text or "").strip():
            raise SchemaError("ECDSA not empty")
    kids = list(e)
    if len(kids) != 1 or kids[0].tag not in ("RSA", "ECDSA"):
        raise SchemaError("SignatureAlgorithm: expected RSA | ECDSA")
    (rsa if kids[0].tag == "RSA" else ecdsa)(kids[0])


def policy(e):
    attrs(e, ())
    seq(e, [(t, 1, 1, simple("duration")) for t in ("PublishSafety", "RetireSafety", "MaxSignatureValidity", "MinSignatureValidity",
                                                     "MaxValidityOverlap", "MinValidityOverlap")] + [("SignatureAlgorithm", 1, None, sigalg)])


def key(e):
    attrs(e, ("keyIdentifier", "keyTag"))
    nni(e.attrib["keyTag"], 65535)
    seq(e, [("TTL", 1, 1, simple((None, None))), ("Flags", 1, 1, simple((None, 65535))), ("Protocol", 1, 1, simple((3, 3))),
            ("Algorithm", 1, 1, simple((None, 255))), ("PublicKey", 1, 1, simple("base64"))])


def signature(e):
    attrs(e, ("keyIdentifier",))
    seq(e, [("TTL", 1, 1, simple((None, None))), ("TypeCovered", 1, 1, simple("string")), ("Algorithm", 1, 1, simple((None, 255))),
            ("Labels", 1, 1, simple((None, 255))), ("OriginalTTL", 1, 1, simple((None, None))), ("SignatureExpiration", 1, 1, simple("dateTime")),
            ("SignatureInception", 1, 1, simple("dateTime")), ("KeyTag", 1, 1, simple((None, 65535))), ("SignersName", 1, 1, simple("string")),
            ("SignatureData", 1, 1, simple("base64"))])


def signer(e):
    attrs(e, ("keyIdentifier",))
    if len(e) or (e.text or "").strip():
        raise SchemaError("Signer not empty")


def validate(text: str) -> None:
    root = ET.fromstring(text.encode())
    if root.tag != "KSR":
        raise SchemaError("root is not KSR")
    attrs(root, ("id", "serial", "domain"))
    nni(root.attrib["serial"])
    kids = list(root)
    if len(kids) != 1 or kids[0].tag not in ("Request", "Response"):
        raise SchemaError("KSR: expected Request | Response")
    body = kids[0]
    attrs(body, (), ("timestamp",))
    if body.tag == "Response":
        def rpol(e):
            attrs(e, ()); seq(e, [("KSK", 1, 1, policy), ("ZSK", 1, 1, policy)])

        def bundle(e):
            attrs(e, ("id",))
            seq(e, [("Inception", 1, 1, simple("dateTime")), ("Expiration", 1, 1, simple("dateTime")), ("Key", 1, None, key), ("Signature", 1, None, signature)])
        seq(body, [("ResponsePolicy", 1, 1, rpol), ("ResponseBundle", 1, None, bundle)])
    else:
        def qpol(e):
            attrs(e, ()); seq(e, [("ZSK", 1, 1, policy)])

        def bundle(e):
            attrs(e, ("id",))
            seq(e, [("Inception", 1, 1, simple("dateTime")), ("Expiration", 1, 1, simple("dateTime")), ("Signer", 0, None, signer), ("Key", 1, None, key),
                    ("Signature", 1, None, signature)])
        seq(body, [("RequestPolicy", 1, 1, qpol), ("RequestBundle", 1, None, bundle)])
