"""Scenarios for the signing pipeline: run the real sign_bundles against the emulator, compute the
oracle tables for the Coq model, and judge the outcome with an independent transcription of C01/C02/C04/C15."""
from __future__ import annotations

import base64
import datetime as dt
import hashlib

import PyKCS11.LowLevel as LL

import ceremony
import emu
import ksrxml
import skrgen
import specs
import vlib
from kgen import coq_request, handle, us
from vlib import coq_bool, coq_opt, txt, z, zlist

UTC = dt.timezone.utc
CLS = {"pub": LL.CKO_PUBLIC_KEY, "priv": LL.CKO_PRIVATE_KEY, "secret": LL.CKO_SECRET_KEY}
HNUM = {"sha1": 1, "sha256": 256, "sha384": 384, "sha512": 512}
EXN = vlib.exn_table()


# ------------------------------------------------------------------ token layouts
def obj(label, cls, key=None, pub_attrs=True, ec_wrapped=True, ktype=None, attr_pad=0, extra=None):
    """key: ksrxml key dict (has 'priv', which may be None for a public object given by its raw attributes in extra) or None;
    attr_pad: leading zero octets in the public exponent the token reports; extra: {CKA_*: value} overriding what the emulator derives"""
    return {"label": label, "cls": cls, "key": key, "pub_attrs": pub_attrs, "ec_wrapped": ec_wrapped, "ktype": ktype, "attr_pad": attr_pad, "extra": extra}


def pair(label, key, **kw):
    return [obj(label, "pub", key, **kw), obj(label, "priv", key, **kw)]


def build_token(modules) -> emu.Token:
    mods = {}
    for mi, slots in enumerate(modules):
        sl = []
        for s in slots:
            objs = []
            for o in s["objs"]:
                kt = o["ktype"]
                objs.append(emu.Obj(CLS[o["cls"]], o["label"], o["key"]["priv"] if o["key"] else None, key_type=kt,
                                    pub_attrs=o["pub_attrs"], ec_wrapped=o["ec_wrapped"], attr_pad=o.get("attr_pad", 0), extra=o.get("extra")))
            sl.append(emu.Slot(s["id"], s.get("login_ok", True), objs))
        mods[f"emu:{mi}"] = sl
    return emu.Token(mods)


def ref_pubkey(o):
    """What the public key derived from this object's attributes must be (reference): ('ok', b64|None) or ('exc', code)."""
    k = o["key"]
    if o["cls"] == "secret":
        return ("ok", None)
    kt = o["ktype"]
    if kt is not None and kt not in (LL.CKK_RSA, LL.CKK_EC):
        return ("exc", EXN["NotImplementedError"])
    if k is None:
        return ("exc", EXN["NotImplementedError"])
    visible = o["cls"] == "pub" or o["pub_attrs"]
    if k["alg"] in (5, 8, 10):
        if not visible:
            return ("exc", EXN["TypeError"])       # bytes(None): private RSA object without public attributes
        return ("ok", base64.b64encode(k["pub"]))
    if not visible:
        return ("ok", None)
    return ("ok", base64.b64encode(k["pub"]))


def ktype_of(o):
    if o["ktype"] is not None:
        return o["ktype"]
    if o["key"] is None:
        return LL.CKK_AES
    return LL.CKK_RSA if o["key"]["alg"] in (5, 8, 10) else LL.CKK_EC


def coq_modules(modules) -> str:
    ms = []
    for slots in modules:
        ss = []
        for s in slots:
            objs = []
            for n, o in enumerate(s["objs"], 1):
                rp = ref_pubkey(o)
                if rp[0] == "ok":
                    pk = f"(OK {coq_opt(handle(rp[1]) if rp[1] is not None else None)})"
                    raw = zlist(base64.b64decode(rp[1])) if rp[1] is not None else "[]"
                else:
                    pk, raw = f"(Raise {rp[1]})", "[]"
                objs.append(f"(mkObj {n} {CLS[o['cls']]} {txt(o['label'])} {ktype_of(o)} {pk} {raw})")
            ss.append(f"(mkSlot {s['id']} {coq_bool(s.get('login_ok', True))} [{';'.join(objs)}])")
        ms.append("[" + ";".join(ss) + "]")
    return "[" + ";".join(ms) + "]"


def ref_lookup(modules, label, cls):
    """C15 spec: first logged-in slot (module order, slot order) holding >= 1 object of that class with that label."""
    for mi, slots in enumerate(modules):
        for s in slots:
            if not s.get("login_ok", True):
                continue
            hits = [(n, o) for n, o in enumerate(s["objs"], 1) if o["label"] == label and o["cls"] == cls]
            if len(hits) > 1:
                return ("dup",)
            if len(hits) == 1:
                return ("found", mi, s["id"], hits[0][0], hits[0][1])
    return ("none",)


# ------------------------------------------------------------------ KSK configuration
def coq_ksk(d: dict) -> str:
    """d: config dict as produced by ceremony.ksk_def"""
    alg = specs.ALGNUM[d["algorithm"]]
    o = lambda v: "None" if v is None else f"(Some {z(v)})"
    vu = d.get("valid_until")
    ds = d.get("ds_sha256")
    hh = d.get("hash_using_hsm")
    return (f"(mkKskKey {txt(d['label'])} {alg} {o(d.get('rsa_size'))} {o(d.get('rsa_exponent'))} {z(us(d['valid_from']))} "
            f"{'None' if vu is None else '(Some ' + z(us(vu)) + ')'} {o(d.get('key_tag'))} {'None' if ds is None else '(Some ' + txt(ds.upper()) + ')'} "
            f"{'None' if hh is None else '(Some ' + coq_bool(hh) + ')'})")


def norm(v):
    return [] if v is None else ([v] if isinstance(v, str) else list(v))


def coq_schema(schema: dict) -> str:
    rows = []
    for i, a in sorted(schema.items()):
        rows.append(f"({i}, mkAction [{';'.join(txt(x) for x in norm(a.get('publish')))}] [{';'.join(txt(x) for x in norm(a.get('sign')))}] "
                    f"[{';'.join(txt(x) for x in norm(a.get('revoke')))}])")
    return "[" + ";".join(rows) + "]"


# ------------------------------------------------------------------ running one scenario
class Blobs:
    def __init__(self):
        self.idx = {}
        self.items = []

    def add(self, b: bytes) -> int:
        if b not in self.idx:
            self.idx[b] = len(self.items)
            self.items.append(b)
        return self.idx[b]

    def coq(self):
        return "[" + ";".join(zlist(b) for b in self.items) + "]"


def coq_bundle_out(b) -> str:
    """implementation ResponseBundle -> Coq Bundle with handles (keys by public key text, signatures by signature text)"""
    from kgen import coq_key, coq_sig
    keys = "[" + ";".join(coq_key(k, with_txt="handle", with_pub=False) for k in b.keys) + "]"
    sigs = "[" + ";".join(coq_sig(s, with_data="handle") for s in b.signatures) + "]"
    return f"(mkBundle {txt(b.id)} {z(us(b.inception))} {z(us(b.expiration))} {keys} {sigs} None)"


def oracle_tables(tok, modules, ksks, raws):
    """Oracle rows for the signing model from what one run did: (Blobs, hrows, trows, vrows, drows).
    raws: the RRSIG signature data the implementation computed (spied at make_raw_rrsig)."""
    # ---- oracle tables
    bl = Blobs()
    hrows, trows, vrows, drows = [], [], [], []
    seen_raw = []
    for raw in raws:
        if raw in seen_raw:
            continue
        seen_raw.append(raw)
        bi = bl.add(raw)
        for name, hid in HNUM.items():
            hrows.append(f"({hid}, {bi}, {zlist(hashlib.new(name, raw).digest())})")
    slot_of = {}
    for mi, slots in enumerate(modules):
        for s in slots:
            slot_of[(f"emu:{mi}", s["id"])] = mi
    sig_by_call = []
    for e in tok.sign_log:
        bi = bl.add(e["data"])
        if e["result"] is not None:
            res = f"(OK {handle(b'sig:' + base64.b64encode(e['result']))})"
        else:
            res = f"(Raise {EXN['PyKCS11Error']})"
        trows.append(f"({slot_of[(e['module'], e['slot'])]}, {e['slot']}, {e['handle']}, {e['mech']}, {bi}, {res})")
        sig_by_call.append(e)
    # verify rows: every (token public key, its algorithm per configured KSK, observed raw, produced signature)
    pubs = {}
    for slots in modules:
        for s in slots:
            for o in s["objs"]:
                if o["key"] is not None:
                    pubs[base64.b64encode(o["key"]["pub"])] = o["key"]
    algs = sorted({specs.ALGNUM[d["algorithm"]] for d in ksks.values()})
    for raw in seen_raw:
        bi = bl.add(raw)
        for e in sig_by_call:
            if e["result"] is None:
                continue
            for ptxt, kd in pubs.items():
                for a in algs:
                    if (a in (5, 8, 10)) != (kd["alg"] in (5, 8, 10)):
                        continue
                    verdict = ksrxml.verify_raw(kd["pub"], a, raw, e["result"]) if a in ksrxml.HASH else False
                    if verdict or kd["id"] == e["label"]:
                        vrows.append(f"({handle(ptxt)}, {a}, {bi}, {handle(b'sig:' + base64.b64encode(e['result']))}, {coq_bool(verdict)})")
    for ptxt, kd in pubs.items():
        for a in algs:
            if (a in (5, 8, 10)) != (kd["alg"] in (5, 8, 10)):
                continue
            pre = b"\x00" + ksrxml.rdata(257, 3, a, kd["pub"])
            drows.append(f"({bl.add(pre)}, {txt(hashlib.sha256(pre).hexdigest().upper())})")
    return bl, hrows, trows, vrows, drows


RUNS = [0]


def run_sign(sc: dict):
    """sc: modules, ksks {name: config dict}, schema, request (dict), ttl, validate (bool), faults {opindex: kind}
    -> dict with impl result, coq case text, observations"""
    import kskm.signer.sign as ksign
    from kskm.misc.hsm import init_pkcs11_modules
    tok = build_token(sc["modules"])
    tok.faults = dict(sc.get("faults") or {})
    emu.install(tok)
    hsm = {f"m{mi}": {"module": f"emu:{mi}", "pin": "1234"} for mi in range(len(sc["modules"]))}
    nb = len(sc["request"]["bundles"])
    cfg = ceremony.make_config(sc["ksks"], {"s": {i: {k: v for k, v in a.items() if v or k != "revoke"} for i, a in sc["schema"].items()}},
                               request_policy={"num_bundles": max(1, nb), "enable_unsupported_ecdsa": True},
                               response_policy={"num_bundles": max(1, nb), "validate_signatures": sc.get("validate", True)},
                               ksk_policy={"publish_safety": "P10D", "retire_safety": "P10D", "max_signature_validity": "P21D", "min_signature_validity": "P21D",
                                           "max_validity_overlap": "P16D", "min_validity_overlap": "P9D", "ttl": sc.get("ttl", 172800)}, hsm=hsm)
    if sc.get("via_xml"):
        # the request as the tools get it: the KSR document, read by the loader (timestamps, identifiers and all)
        from kskm.ksr.load import request_from_xml
        req = request_from_xml(ksrxml.render_ksr(sc["request"]))
    else:
        req = skrgen.k_request(sc["request"])
    raws = []
    orig_raw = ksign.make_raw_rrsig

    def spy_raw(sig, keys):
        r = orig_raw(sig, keys)
        raws.append(r)
        return r

    ksign.make_raw_rrsig = spy_raw
    try:
        ri = vlib.run_impl(init_pkcs11_modules, cfg)
        if ri[0] != "ok":
            r = ri          # module initialisation failed (e.g. every login refused): the run stops before any signing
        else:
            p11 = ri[1]
            RUNS[0] += 1
            if RUNS[0] % 4 == 3:
                with vlib.debug_logging():      # every fourth ceremony signs with debug logging on (the tools' --debug): same bundles
                    r = vlib.run_impl(lambda: list(ksign.sign_bundles(req, cfg.get_schema("s"), p11, cfg.ksk_policy, cfg)))
            else:
                r = vlib.run_impl(lambda: list(ksign.sign_bundles(req, cfg.get_schema("s"), p11, cfg.ksk_policy, cfg)))
    finally:
        ksign.make_raw_rrsig = orig_raw
    bl, hrows, trows, vrows, drows = oracle_tables(tok, sc["modules"], sc["ksks"], raws)
    seen_raw = list(dict.fromkeys(raws))
    oracles = f"(mkOracles {bl.coq()} [{';'.join(hrows)}] [{';'.join(trows)}] [{';'.join(dict.fromkeys(vrows))}] [{';'.join(drows)}])"
    if r[0] == "ok":
        impl = "(OK [" + ";".join(coq_bundle_out(b) for b in r[1]) + "])"
    else:
        impl = f"(Raise {r[1]})"
    kks = "[" + ";".join(f"({txt(n)}, {coq_ksk(d)})" for n, d in sc["ksks"].items()) + "]"
    coq = (f"CSign {coq_request(req, with_txt='handle', with_data=False, with_pub=True, keep_order=True)} {coq_schema(sc['schema'])} "
           f"{coq_modules(sc['modules'])} {z(sc.get('ttl', 172800))} {txt('.')} {kks} {coq_bool(sc.get('validate', True))} {oracles} "
           f"{coq_bool(sc.get('strict', True))} {impl}")
    return {"impl": r, "coq": coq, "token": tok, "raws": seen_raw, "config": cfg}


# ------------------------------------------------------------------ independent expectations (C02 / C04 / C15 / C01)
def expect(sc: dict):
    """-> ('ok', [bundle dicts]) | ('reject', reason) from the property texts (C04 conditions, C02 content, alg agreement)."""
    ttl = sc.get("ttl", 172800)
    out = []
    for i, b in enumerate(sc["request"]["bundles"], 1):
        act = sc["schema"].get(i)
        if act is None:
            return ("reject", f"no schema action for slot {i}")
        token_key = {}
        for role, cls in (("publish", "pub"), ("revoke", "pub"), ("sign", "priv")):
            for name in norm(act.get(role)):
                d = sc["ksks"].get(name)
                if d is None:
                    return ("reject", f"unknown key name {name}")
                if d["valid_from"] > b["inc"]:
                    return ("reject", f"{name} not yet valid at inception of slot {i}")
                if d.get("valid_until") is not None and d["valid_until"] < b["exp"]:
                    return ("reject", f"{name} expires before expiration of slot {i}")
                lk = ref_lookup(sc["modules"], d["label"], cls)
                if lk[0] == "dup":
                    return ("reject", f"two objects under label {d['label']} in one slot")
                if lk[0] == "none":
                    return ("reject", f"label {d['label']} on no token ({cls})")
                o = lk[4]
                rp = ref_pubkey(o)
                if rp[0] != "ok":
                    return ("reject", f"public part of {d['label']} unreadable")
                pk = rp[1]
                if pk is None and cls == "priv":
                    lk2 = ref_lookup(sc["modules"], d["label"], "pub")
                    if lk2[0] == "dup":
                        return ("reject", "duplicate public objects")
                    if lk2[0] == "found":
                        rp2 = ref_pubkey(lk2[4])
                        if rp2[0] != "ok":
                            return ("reject", "public part unreadable")
                        pk = rp2[1]
                if pk is None:
                    return ("reject", f"no public key for {d['label']}")
                alg = specs.ALGNUM[d["algorithm"]]
                kt = ktype_of(o)
                pub = base64.b64decode(pk)
                if kt == LL.CKK_RSA:
                    if alg not in specs.RSA:
                        return ("reject", "RSA token key for a non-RSA algorithm")
                    prm = specs._rsa_params(pub)
                    if prm is None or prm[1] != d.get("rsa_size") or prm[0] != d.get("rsa_exponent"):
                        return ("reject", "RSA size/exponent differs from configuration")
                elif kt == LL.CKK_EC:
                    if alg not in specs.ECDSA and alg not in specs.EDDSA:
                        return ("reject", "EC token key for a non-EC algorithm")
                    if alg in specs.ECDSA and len(pub) not in ((64,) if alg == 13 else (96,)) and not (pub[:1] == b"\x04" and len(pub) - 1 in ((64,) if alg == 13 else (96,))):
                        return ("reject", "EC key size does not fit the algorithm")
                else:
                    return ("reject", "symmetric / unknown key type")
                rd = ksrxml.rdata(257, 3, alg, pub)
                if d.get("ds_sha256") and d["ds_sha256"].upper() != hashlib.sha256(b"\x00" + rd).hexdigest().upper():
                    return ("reject", "DS differs from configuration")
                if d.get("key_tag") is not None and d["key_tag"] != ksrxml.keytag(rd):
                    return ("reject", "key tag differs from configuration")
                token_key[(role, name)] = {"id": d["label"], "tag": ksrxml.keytag(rd), "ttl": ttl, "flags": 257, "proto": 3, "alg": alg, "pub": pub,
                                           "priv": o["key"]["priv"] if o["key"] else None, "hh": d.get("hash_using_hsm")}
        keys = {}
        for name in norm(act.get("publish")):
            k = token_key[("publish", name)]
            keys.setdefault(k["pub"], k)
        for name in norm(act.get("revoke")):
            k = skrgen.revoked(token_key[("revoke", name)])
            keys.pop(k["pub"], None)
            keys[k["pub"]] = k
        signers = []
        for name in norm(act.get("sign")):
            k = token_key[("sign", name)]
            keys.setdefault(k["pub"], k)
            signers.append(k)
        for k in b["keys"]:
            keys.setdefault(k["pub"], dict(k, ttl=ttl))
        klist = list(keys.values())
        sig_algs = set()
        sigs = []
        seen = set()
        for k in signers:
            published = keys[k["pub"]]
            if (k["id"], published["tag"]) in seen:
                continue
            seen.add((k["id"], published["tag"]))
            sig_algs.add(k["alg"])
            sigs.append({"id": k["id"], "ttl": ttl, "alg": k["alg"], "labels": 0, "ottl": ttl, "exp": b["exp"], "inc": b["inc"],
                         "tag": published["tag"], "name": "."})
        if {k["alg"] for k in b["keys"]} != sig_algs:
            return ("reject", f"ZSK algorithms differ from signature algorithms in slot {i}")
        out.append({"id": b["id"], "inc": b["inc"], "exp": b["exp"], "keys": klist, "sigs": sigs})
    return ("ok", out)


def compare_result(sc, res, exp):
    """C02 + C01 on an implementation result that succeeded. -> list of problems"""
    probs = []
    bundles = res[1]
    if len(bundles) != len(exp[1]):
        return [f"{len(bundles)} response bundles for {len(exp[1])} request bundles"]
    for b, e in zip(bundles, exp[1]):
        if (b.id, b.inception, b.expiration) != (e["id"], e["inc"], e["exp"]):
            probs.append(f"bundle {e['id']}: id/inception/expiration not copied")
        got = sorted((k.key_identifier, k.key_tag, k.ttl, k.flags, k.protocol, k.algorithm.value, base64.b64decode(k.public_key)) for k in b.keys)
        want = sorted((k["id"], k["tag"], k["ttl"], k["flags"], k.get("proto", 3), k["alg"], k["pub"]) for k in e["keys"])
        if got != want:
            probs.append(f"bundle {e['id']}: key set differs: got {[(g[0], g[1], g[2], g[3]) for g in got]} want {[(w[0], w[1], w[2], w[3]) for w in want]}")
        gs = sorted((s.key_identifier, s.ttl, s.algorithm.value, s.labels, s.original_ttl, s.signature_expiration, s.signature_inception, s.key_tag, s.signers_name) for s in b.signatures)
        ws = sorted((s["id"], s["ttl"], s["alg"], s["labels"], s["ottl"], s["exp"], s["inc"], s["tag"], s["name"]) for s in e["sigs"])
        if gs != ws:
            probs.append(f"bundle {e['id']}: signatures differ: got {[(g[0], g[7]) for g in gs]} want {[(w[0], w[7]) for w in ws]}")
        keys = [specs.keyd(k) for k in b.keys]
        for s in b.signatures:
            ok, why = ceremony.dns_validate(keys, specs.sigd(s))
            if not ok:
                probs.append(f"bundle {e['id']}: signature by {s.key_identifier} does not validate under dnspython: {why}")
    return probs


def written_skr_problems(sc, res, exp) -> list[str]:
    """C02 on the document: the response bundles the signer returned, put through the tool's own SKR writer and read with ElementTree,
    must state per bundle exactly the expected keys and signers (the SKR is the file, not the object in memory)."""
    import xml.etree.ElementTree as ET
    from kskm.skr.data import Response
    from kskm.skr.output import skr_to_xml
    rq = sc["request"]
    pol = skrgen.k_policy(rq["zsk"])
    r = vlib.run_impl(lambda: skr_to_xml(Response(id=rq["id"], serial=rq["serial"], domain=rq["domain"], timestamp=None, zsk_policy=pol, ksk_policy=pol, bundles=list(res[1]))))
    if r[0] != "ok":
        return [f"the SKR writer failed on the signed bundles: {r[2]}"]
    try:
        root = ET.fromstring(r[1].encode())
    except ET.ParseError as e:
        return [f"the written SKR is not well-formed: {e}"]
    resp = root.find("Response")
    probs = []
    if resp is None or (root.get("id"), root.get("serial"), root.get("domain")) != (rq["id"], str(rq["serial"]), rq["domain"]):
        probs.append("written SKR: id/serial/domain not those of the request")
        return probs
    rbs = resp.findall("ResponseBundle")
    if len(rbs) != len(exp[1]):
        return [f"written SKR has {len(rbs)} bundles for {len(exp[1])} request bundles"]
    for rb, e in zip(rbs, exp[1]):
        import etread
        if (rb.get("id"), etread.when(rb.findtext("Inception")), etread.when(rb.findtext("Expiration"))) != (e["id"], e["inc"], e["exp"]):
            probs.append(f"written bundle {e['id']}: id/inception/expiration not copied")
        got = sorted((k.get("keyIdentifier"), int(k.get("keyTag")), int(k.findtext("TTL")), int(k.findtext("Flags")), int(k.findtext("Protocol")), int(k.findtext("Algorithm")),
                      base64.b64decode(k.findtext("PublicKey"))) for k in rb.findall("Key"))
        want = sorted((k["id"], k["tag"], k["ttl"], k["flags"], k.get("proto", 3), k["alg"], k["pub"]) for k in e["keys"])
        if got != want:
            probs.append(f"written bundle {e['id']}: key set differs from what request and schema dictate: written {[(g[0], g[1], g[3]) for g in got]} want {[(w[0], w[1], w[3]) for w in want]}")
        gs = sorted((s.get("keyIdentifier"), int(s.findtext("KeyTag"))) for s in rb.findall("Signature"))
        ws = sorted((s["id"], s["tag"]) for s in e["sigs"])
        if gs != ws:
            probs.append(f"written bundle {e['id']}: signers differ: written {gs} want {ws}")
    return probs


def token_octets_problems(sc, run) -> list[str]:
    """C15/C01: octets and mechanism handed to the token, against an independent EMSA-PKCS1-v1_5 / digest reference."""
    probs = []
    DI = {8: ("sha256", bytes.fromhex("3031300d060960864801650304020105000420")), 10: ("sha512", bytes.fromhex("3051300d060960864801650304020305000440")),
          5: ("sha1", bytes.fromhex("3021300906052b0e03021a05000414"))}
    labels = {}
    for d in sc["ksks"].values():
        labels[d["label"]] = d
    raws = set(run["raws"])
    for e in run["token"].sign_log:
        d = labels.get(e["label"])
        if d is None:
            probs.append(f"token asked to sign with unconfigured label {e['label']}")
            continue
        alg = specs.ALGNUM[d["algorithm"]]
        hh = bool(d.get("hash_using_hsm"))
        data, mech = e["data"], e["mech"]
        if alg in (5, 8, 10):
            if hh:
                want_mech = {5: LL.CKM_SHA1_RSA_PKCS, 8: LL.CKM_SHA256_RSA_PKCS, 10: LL.CKM_SHA512_RSA_PKCS}[alg]
                if mech != want_mech or data not in raws:
                    probs.append(f"hash-on-token RSA: mechanism {mech} / data is not the untouched RRSIG data")
            else:
                cands = []
                keyobj = None
                for slots in sc["modules"]:
                    for s in slots:
                        for o in s["objs"]:
                            if o["label"] == e["label"] and o["key"] is not None and o["key"]["alg"] in (5, 8, 10):
                                keyobj = o["key"]
                k = len(keyobj["priv"].public_key().public_numbers().n.to_bytes((keyobj["priv"].key_size + 7) // 8, "big")) if keyobj else 0
                hname, prefix = DI[alg]
                for raw in raws:
                    t = prefix + hashlib.new(hname, raw).digest()
                    cands.append(b"\x00\x01" + b"\xff" * (k - len(t) - 3) + b"\x00" + t)
                if mech != LL.CKM_RSA_X_509 or data not in cands or len(data) != k:
                    probs.append(f"raw RSA: octets are not the {k}-octet EMSA-PKCS1-v1_5 encoding of the {hname} digest (mechanism {mech}, {len(data)} octets)")
        elif alg in (13, 14):
            hname = "sha256" if alg == 13 else "sha384"
            if hh:
                want_mech = LL.CKM_ECDSA_SHA256 if alg == 13 else LL.CKM_ECDSA_SHA384
                if mech != want_mech or data not in raws:
                    probs.append(f"hash-on-token ECDSA: mechanism {mech} / data is not the untouched RRSIG data")
            else:
                if mech != LL.CKM_ECDSA or data not in [hashlib.new(hname, r).digest() for r in raws]:
                    probs.append(f"raw ECDSA: octets are not the {hname} digest of the RRSIG data (mechanism {mech})")
    return probs
