"""Reference-side construction of requests / responses (simulated honest signer following a schema)."""
from __future__ import annotations

import base64
import datetime as dt

import ksrxml
from ksrxml import POOL, mk_key, mk_sig

D = dt.timedelta
UTC = dt.timezone.utc


def ksk(label: str, idx: int, alg=8, bits=1024, ttl=172800, e=65537) -> dict:
    priv = POOL.rsa(bits, e, 100 + idx) if alg in (5, 8, 10) else POOL.ec(256 if alg == 13 else 384, 100 + idx)
    return mk_key(priv, alg=alg, flags=257, ttl=ttl, ident=label)


def zsk(idx: int, alg=8, bits=1024, ttl=172800, e=65537) -> dict:
    priv = POOL.rsa(bits, e, idx) if alg in (5, 8, 10) else POOL.ec(256 if alg == 13 else 384, idx)
    return mk_key(priv, alg=alg, flags=256, ttl=ttl)


def revoked(k: dict) -> dict:
    r = dict(k)
    r["flags"] = k["flags"] | 128
    r["tag"] = ksrxml.keytag(ksrxml.rdata(r["flags"], 3, r["alg"], r["pub"]))
    return r


def sign_slot(bundle: dict, action: dict, ksks: dict, ttl: int) -> dict:
    """What the documented schema semantics dictate for one slot (C02's reading):
    keys = ZSKs (TTL overridden) + publish/sign KSKs (257) + revoke KSKs (385, tag recomputed); one sig per sign KSK."""
    keys = {}
    for n in action.get("publish", []):
        keys[ksks[n]["pub"]] = dict(ksks[n], ttl=ttl)
    for n in action.get("revoke", []):
        keys[ksks[n]["pub"]] = dict(revoked(ksks[n]), ttl=ttl)
    for n in action.get("sign", []):
        keys.setdefault(ksks[n]["pub"], dict(ksks[n], ttl=ttl))
    for k in bundle["keys"]:
        keys.setdefault(k["pub"], dict(k, ttl=ttl))
    klist = list(keys.values())
    sigs = []
    seen = set()
    for n in action.get("sign", []):
        if n in seen:
            continue
        seen.add(n)
        signer = keys[ksks[n]["pub"]]
        signer = dict(signer, priv=ksks[n]["priv"])
        sigs.append(mk_sig(signer, klist, bundle["inc"], bundle["exp"], ottl=ttl, ttl=ttl))
    return {"id": bundle["id"], "inc": bundle["inc"], "exp": bundle["exp"], "keys": klist, "sigs": sigs}


def simulate_skr(req: dict, schema: dict, ksks: dict, ksk_policy: dict, ttl=172800) -> dict:
    bundles = [sign_slot(b, schema[i + 1], ksks, ttl) for i, b in enumerate(req["bundles"])]
    return {"id": req["id"], "serial": req["serial"], "domain": req["domain"], "ksk": ksk_policy, "zsk": req["zsk"], "bundles": bundles}


def honest_request(rid: str, start: dt.datetime, n: int, zsks_per_slot: list[list[dict]], zskpol: dict, interval=D(days=10),
                   validity=D(days=21), sign=True) -> dict:
    bundles = []
    for j in range(n):
        inc = start + interval * j
        exp = inc + validity
        keys = zsks_per_slot[j]
        if sign:
            sigs = [mk_sig(k, keys, inc, exp) for k in keys]
        else:   # the loader insists on a Signature element: a placeholder that is never verified
            k0 = keys[0]
            sigs = [{"id": k0["id"], "ttl": k0["ttl"], "alg": k0["alg"], "labels": 0, "ottl": k0["ttl"], "exp": exp, "inc": inc,
                     "tag": k0["tag"], "name": ".", "data": b"\x01\x02"}]
        bundles.append({"id": f"{rid}-b{j}", "inc": inc, "exp": exp, "keys": keys, "sigs": sigs})
    return {"id": rid, "serial": 1, "domain": ".", "zsk": zskpol, "bundles": bundles}


# ---- conversion to kskm objects (needs kskm importable)
def k_key(k: dict):
    from kskm.common.data import AlgorithmDNSSEC, Key
    return Key(key_identifier=k["id"], key_tag=k["tag"], ttl=k["ttl"], flags=k["flags"], protocol=k.get("proto", 3),
               algorithm=AlgorithmDNSSEC(k["alg"]), public_key=base64.b64encode(k["pub"]))


def k_sig(s: dict):
    from kskm.common.data import AlgorithmDNSSEC, Signature, TypeDNSSEC
    return Signature(key_identifier=s["id"], ttl=s["ttl"], type_covered=TypeDNSSEC.DNSKEY, algorithm=AlgorithmDNSSEC(s["alg"]),
                     labels=s["labels"], original_ttl=s["ottl"], signature_expiration=s["exp"], signature_inception=s["inc"],
                     key_tag=s["tag"], signers_name=s["name"], signature_data=base64.b64encode(s["data"]))


def k_policy(p: dict):
    from kskm.common.data import AlgorithmDNSSEC, AlgorithmPolicyECDSA, AlgorithmPolicyRSA, SignaturePolicy
    algs = set()
    for a in p["algs"]:
        if a[0] == "RSA":
            algs.add(AlgorithmPolicyRSA(bits=a[2], exponent=a[3], algorithm=AlgorithmDNSSEC(a[1])))
        elif a[0] == "ECDSA":
            algs.add(AlgorithmPolicyECDSA(bits=a[2], algorithm=AlgorithmDNSSEC(a[1])))
    return SignaturePolicy(publish_safety=p["publish_safety"], retire_safety=p["retire_safety"], max_signature_validity=p["max_validity"],
                           min_signature_validity=p["min_validity"], max_validity_overlap=p["max_overlap"],
                           min_validity_overlap=p["min_overlap"], algorithms=algs)


def k_request(r: dict):
    from kskm.ksr.data import Request, RequestBundle
    from kskm.common.data import Signer
    bs = [RequestBundle(id=b["id"], inception=b["inc"], expiration=b["exp"], keys={k_key(k) for k in b["keys"]},
                        signatures={k_sig(s) for s in b["sigs"]},
                        signers={Signer(key_identifier=x) for x in b["signers"]} if b.get("signers") else None) for b in r["bundles"]]
    return Request(id=r["id"], serial=r["serial"], domain=r["domain"], timestamp=None, zsk_policy=k_policy(r["zsk"]), bundles=bs)


def k_response(r: dict):
    from kskm.skr.data import Response, ResponseBundle
    bs = [ResponseBundle(id=b["id"], inception=b["inc"], expiration=b["exp"], keys={k_key(k) for k in b["keys"]},
                         signatures={k_sig(s) for s in b["sigs"]}) for b in r["bundles"]]
    return Response(id=r["id"], serial=r["serial"], domain=r["domain"], timestamp=None, zsk_policy=k_policy(r["zsk"]),
                    ksk_policy=k_policy(r["ksk"]), bundles=bs)
