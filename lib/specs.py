"""Independent transcriptions of the property texts (C05, C06, C07) as Python predicates over parsed requests.

They read the kskm data objects only as plain records (attributes), and use the reference
encoders of ksrxml.py (RFC 4034 key tag / signature data, RFC 3110 / 6605, `cryptography` for verification).
"""
from __future__ import annotations

import base64
import datetime as dt
import struct

import ksrxml

D = dt.timedelta
RSA = (5, 8, 10)
ECDSA = (13, 14)
EDDSA = (15, 16)
DEPRECATED = (1, 3, 6, 12)
SUPPORTED = (8, 10, 13, 14, 15, 16)
ALGNUM = {"RSAMD5": 1, "DSA": 3, "RSASHA1": 5, "DSA_NSEC3_SHA1": 6, "RSASHA1_NSEC3_SHA1": 7, "RSASHA256": 8, "RSASHA512": 10,
          "ECC_GOST": 12, "ECDSAP256SHA256": 13, "ECDSAP384SHA384": 14, "ED25519": 15, "ED448": 16}


def keyd(k) -> dict:
    return {"id": k.key_identifier, "tag": k.key_tag, "ttl": k.ttl, "flags": k.flags, "proto": k.protocol,
            "alg": k.algorithm.value, "pub": base64.b64decode(k.public_key), "pubtxt": bytes(k.public_key)}


def sigd(s) -> dict:
    return {"id": s.key_identifier, "ttl": s.ttl, "alg": s.algorithm.value, "labels": s.labels, "ottl": s.original_ttl,
            "exp": s.signature_expiration, "inc": s.signature_inception, "tag": s.key_tag, "name": s.signers_name,
            "data": base64.b64decode(s.signature_data), "datatxt": bytes(s.signature_data)}


def timing(now, pol, zsk, bundles) -> bool:
    """bundles: chronologically ordered objects with .inception/.expiration; zsk: SignaturePolicy-like."""
    if len(bundles) != pol.num_bundles:
        return False
    if pol.check_cycle_length and bundles:
        c = bundles[-1].inception - bundles[0].inception
        if not (pol.min_cycle_inception_length <= c <= pol.max_cycle_inception_length):
            return False
    for a, b in zip(bundles, bundles[1:]):
        if pol.check_bundle_overlap:
            ov = a.expiration - b.inception
            if ov < D(0) or not (zsk.min_validity_overlap <= ov <= zsk.max_validity_overlap):
                return False
        if pol.check_bundle_intervals and not (pol.min_bundle_interval <= b.inception - a.inception <= pol.max_bundle_interval):
            return False
    for b in bundles:
        if pol.signature_validity_match_zsk_policy and not (zsk.min_signature_validity <= b.expiration - b.inception <= zsk.max_signature_validity):
            return False
        if pol.signature_check_expire_horizon:
            days = (b.expiration - now) // D(days=1)
            hz = pol.signature_horizon_days
            if (hz != 0 and days > hz) or (hz > 0 and days < 0):
                return False
    return True


def _rsa_params(pub: bytes):
    if not pub:
        return None
    if pub[0] == 0:
        if len(pub) < 3:
            return None
        el = struct.unpack("!H", pub[1:3])[0]
        rest = pub[3:]
    else:
        el = pub[0]
        rest = pub[1:]
    return int.from_bytes(rest[:el], "big"), 8 * len(rest[el:])


def _declared(pol, algs, k: dict) -> bool:
    """key parameters (algorithm, size, exponent unless waived) match one declared algorithm of the same family"""
    a = k["alg"]
    if a in RSA:
        prm = _rsa_params(k["pub"])
        if prm is None:
            return False
        e, bits = prm
        for p in algs:
            if type(p).__name__ == "AlgorithmPolicyRSA" and p.algorithm.value == a and p.bits == bits and \
                    (p.exponent == e or not pol.rsa_exponent_match_zsk_policy):
                return True
        return False
    if a in ECDSA or a in EDDSA:
        fam = "AlgorithmPolicyECDSA" if a in ECDSA else "AlgorithmPolicyEdDSA"
        pub = k["pub"]
        if not pub:
            return False
        if a in ECDSA:
            exp_bytes = 64 if a == 13 else 96
            size = lambda b: len(b) * 8 // 2
            exp_size = exp_bytes * 8 // 2
        else:
            exp_size = 256 if a == 15 else 456
            size = lambda b: len(b) * 8
        if size(pub) != exp_size and pub[0] == 4:
            pub = pub[1:]
        for p in algs:
            if type(p).__name__ == fam and p.algorithm.value == a and p.bits == size(pub):
                return True
        return False
    return False


def keys_header(pol, req) -> bool:
    if req.domain not in pol.acceptable_domains:
        return False
    ids = [b.id for b in req.bundles]
    if len(set(ids)) != len(ids):
        return False
    algs = list(req.zsk_policy.algorithms)
    for p in algs:
        a = p.algorithm.value
        if a in DEPRECATED or a not in SUPPORTED:
            return False
        if a in ECDSA and not pol.enable_unsupported_ecdsa:
            return False
        if a in EDDSA and not pol.enable_unsupported_edwards_dsa:
            return False
    if pol.signature_algorithms_match_zsk_policy:
        approved = [ALGNUM[x] for x in pol.approved_algorithms]
        for p in algs:
            if p.algorithm.value not in approved:
                return False
            if p.algorithm.value in RSA and (p.bits not in pol.rsa_approved_key_sizes or p.exponent not in pol.rsa_approved_exponents):
                return False
    allk = [keyd(k) for b in req.bundles for k in b.keys]
    if pol.check_keys_match_ksk_operator_policy:
        if len(req.bundles) != len(pol.num_keys_per_bundle):
            return False
        if any(len(b.keys) != n for b, n in zip(req.bundles, pol.num_keys_per_bundle)):
            return False
        if len({k["id"] for k in allk}) != pol.num_different_keys_in_all_bundles:
            return False
    if pol.keys_match_zsk_policy:
        byid = {}
        for k in allk:
            rec = (k["tag"], k["ttl"], k["flags"], k["proto"], k["alg"], k["pubtxt"])
            if byid.setdefault(k["id"], rec) != rec:
                return False                       # identifier denotes two different keys
            if k["flags"] != 256:
                return False
            if not (0 <= k["proto"] < 256):
                return False
            if ksrxml.keytag(ksrxml.rdata(k["flags"], k["proto"], k["alg"], k["pub"])) != k["tag"]:
                return False
            if not _declared(pol, algs, k):
                return False
    return True


def sig_verdict(s: dict, keys: list[dict]) -> tuple[bytes, bool]:
    """reference signature data and the crypto verdict for the bundle key named by the signature"""
    named = [k for k in keys if k["id"] == s["id"]]
    try:
        tbs = ksrxml.ref_tbs(s, keys)
    except (struct.error, OverflowError, ValueError):
        return b"", False
    if len(named) != 1 or s["name"] != ".":
        return tbs, False
    k = named[0]
    if k["alg"] not in ksrxml.HASH:
        return tbs, False
    return tbs, ksrxml.verify_raw(k["pub"], k["alg"], tbs, s["data"])


def pop(req) -> bool:
    for b in req.bundles:
        keys = [keyd(k) for k in b.keys]
        sigs = [sigd(s) for s in b.signatures]
        if not keys or not sigs:
            return False
        if len({k["id"] for k in keys}) != len(keys):
            return False
        for s in sigs:
            if not any(k["id"] == s["id"] for k in keys):
                return False
            if not sig_verdict(s, keys)[1]:
                return False
        for k in keys:
            if not any(s["id"] == k["id"] for s in sigs):
                return False
    return True


def validate(now, pol, req) -> bool:
    """Whole documented acceptance region of a KSR (C05 + C06 + C07)."""
    if not keys_header(pol, req):
        return False
    if pol.validate_signatures and not pop(req):
        return False
    return timing(now, pol, req.zsk_policy, list(req.bundles))
