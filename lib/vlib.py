"""Shared machinery for the /verif checks.

One check run = (1) regenerate coq/Gen from /repo, (2) build the proof cone of Props/<ID>.vo and read
Print Assumptions, (3) correspondence: run implementation and Coq model on generated cases,
(4) verdict + violation search, (5) evidence.
"""
from __future__ import annotations

import fcntl
import hashlib
import json
import os
import random
import re
import shutil
import subprocess
import sys
import time
from pathlib import Path

VERIF = Path(__file__).resolve().parent.parent
COQ = VERIF / "coq"
REPO = Path(os.environ.get("VERIF_REPO", "/repo"))
SRC = REPO / "src"
WORK = VERIF / "work"
EVID = VERIF / "evidence"
PY = "/venv/bin/python"

os.environ.setdefault("PYTHONHASHSEED", "0")

FORBIDDEN = re.compile(
    r"\b(Admitted|admit|Axiom|Axioms|Parameter|Parameters|Conjecture|Conjectures|Abort All|"
    r"Unset Guard Checking|Unset Positivity Checking|Unset Universe Checking|bypass_check|"
    r"type-in-type|impredicative-set|Admit Obligations)\b"
)
# Allowed inside Sections only (checked separately): Variable / Hypothesis / Context
ALLOWED_AXIOMS: set[str] = set()  # target: closed under the global context

TRUSTED_BASE = [
    "Coq 8.16.1 kernel (coqc), incl. vm_compute for finite tables and case evaluation; no native_compute",
    "axioms: none (every property theorem must print 'Closed under the global context')",
    "translator verif/translate/gen.py (Python ast/import -> Coq text) for coq/Gen/*.v",
    "correspondence harness (verif/lib, verif/checks): generators, canonicaliser, PKCS#11 token emulator",
    "CPython 3.12 semantics of re/str/bytes/struct/base64/datetime; hashlib; cryptography (OpenSSL); dnspython; ElementTree; PyYAML; pydantic",
    "modelled rather than verified: regex matcher, pydantic validation, set iteration order, datetime parsing, YAML, HTTP stack, the real HSM",
]


def seed() -> int:
    try:
        return int(os.environ.get("VERIF_SEED", "1"))
    except ValueError:
        return 1


def tier(argv_tier: str | None = None) -> str:
    t = argv_tier or os.environ.get("VERIF_TIER") or "quick"
    return "thorough" if t.startswith("t") else "quick"


# ----------------------------------------------------------------------------- Coq literals
def z(n: int) -> str:
    return f"({n})" if n < 0 else str(n)


def zlist(bs) -> str:
    return "[" + ";".join(z(int(b)) for b in bs) + "]"


def txt(s: str | None) -> str:
    return zlist([ord(c) for c in (s or "")])


def coq_bool(b) -> str:
    return "true" if b else "false"


def coq_list(items) -> str:
    return "[" + ";\n ".join(items) + "]"


def coq_opt(x: str | None) -> str:
    return "None" if x is None else f"(Some {x})"


# ----------------------------------------------------------------------------- exception table
_EXN = None


def exn_table() -> dict[str, int]:
    global _EXN
    if _EXN is None:
        _EXN = {}
        for m in re.finditer(r"Definition (\w+) : Z := (\d+)\.", (COQ / "Base/Exn.v").read_text()):
            _EXN[m.group(1)] = int(m.group(2))
    return _EXN


def exn_code(exc: BaseException) -> int:
    t = exn_table()
    for cls in type(exc).__mro__:
        name = cls.__name__
        if name == "error" and cls.__module__ == "struct":
            name = "StructError"
        if name == "Error" and cls.__module__ == "binascii":
            name = "BinasciiError"
        if name in t:
            return t[name]
    return t["OtherError"]


import contextlib as _ctx


@_ctx.contextmanager
def debug_logging():
    """Run a block with the process's logging set as the tools' --debug option sets it (root logger at DEBUG, records discarded)."""
    import logging
    root = logging.getLogger()
    kl = logging.getLogger("kskm")
    old = (root.level, logging.root.manager.disable, root.handlers[:], kl.propagate, kl.level)
    logging.disable(logging.NOTSET)
    root.setLevel(logging.DEBUG)
    root.handlers = [logging.NullHandler()]
    kl.propagate = True
    kl.setLevel(logging.NOTSET)
    try:
        yield
    finally:
        root.setLevel(old[0])
        logging.disable(old[1])
        root.handlers = old[2]
        kl.propagate = old[3]
        kl.setLevel(old[4])


def run_impl(f, *a, **kw):
    """Run implementation code; returns ('ok', value) or ('exc', code, classname)."""
    try:
        return ("ok", f(*a, **kw))
    except RecursionError as e:  # pragma: no cover
        return ("exc", exn_code(e), "RecursionError")
    except Exception as e:  # noqa: BLE001
        return ("exc", exn_code(e), type(e).__name__)


# ----------------------------------------------------------------------------- building Coq
class Lock:
    def __init__(self):
        self.fd = None

    def __enter__(self):
        self.fd = open(COQ / ".lock", "w")
        fcntl.flock(self.fd, fcntl.LOCK_EX)
        return self

    def __exit__(self, *a):
        fcntl.flock(self.fd, fcntl.LOCK_UN)
        self.fd.close()


def all_v_files() -> list[str]:
    return sorted(str(p.relative_to(COQ)) for p in COQ.rglob("*.v") if "work" not in p.parts)


def ensure_makefile():
    files = all_v_files()
    stamp = COQ / ".files"
    cur = "\n".join(files)
    if not (COQ / "Makefile").exists() or not stamp.exists() or stamp.read_text() != cur:
        subprocess.run(["coq_makefile", "-f", "_CoqProject", "-o", "Makefile", *files], cwd=COQ, check=True,
                       stdout=subprocess.DEVNULL)
        stamp.write_text(cur)


def make(targets: list[str], timeout=1500) -> tuple[bool, str]:
    with Lock():
        ensure_makefile()
        p = subprocess.run(["timeout", str(timeout), "make", "-j", "12", *targets], cwd=COQ,
                           capture_output=True, text=True)
    return p.returncode == 0, p.stdout + p.stderr


def gate_grep(paths: list[Path]) -> list[str]:
    bad = []
    for p in paths:
        text = p.read_text()
        text = re.sub(r"\(\*.*?\*\)", "", text, flags=re.S)
        for i, line in enumerate(text.splitlines(), 1):
            if FORBIDDEN.search(line):
                bad.append(f"{p.relative_to(VERIF)}:{i}: {line.strip()[:80]}")
    return bad


def deps_of(vfile: str) -> list[Path]:
    """Transitive KV.* dependencies (source files) of a .v file, via Require lines."""
    seen: dict[str, Path] = {}
    todo = [vfile]
    while todo:
        f = todo.pop()
        if f in seen:
            continue
        path = COQ / f
        if not path.exists():
            continue
        seen[f] = path
        text = path.read_text()
        for m in re.finditer(r"From KV Require (?:Import|Export)?\s+([^.]*(?:\.[A-Za-z_][\w]*)*[^.]*)\.", text):
            for mod in m.group(1).split():
                todo.append(mod.replace(".", "/") + ".v")
    return list(seen.values())


def build_props(prop_id: str) -> dict:
    """Compile Props/<id>.v (always recompiled) and parse Print Assumptions output."""
    vfile = f"Props/{prop_id}.v"
    res = {"ok": False, "theorems": [], "axioms": {}, "log": "", "gate": []}
    src = COQ / vfile
    if not src.exists():
        res["log"] = f"{vfile} missing"
        return res
    res["gate"] = gate_grep(deps_of(vfile))
    res["theorems"] = re.findall(r"^(?:Theorem|Corollary)\s+(\w+)", src.read_text(), flags=re.M)
    vo = COQ / f"Props/{prop_id}.vo"
    with Lock():
        if vo.exists():
            vo.unlink()
    ok, log = make([f"Props/{prop_id}.vo"])
    res["log"] = log[-6000:]
    if not ok:
        return res
    text = src.read_text()
    thms = re.findall(r"^(?:Theorem|Corollary)\s+(\w+)", text, flags=re.M)
    printed = re.findall(r"^Print Assumptions\s+(\w+)\.", text, flags=re.M)
    # split the log per Print Assumptions in order
    chunks = re.split(r"(?=Closed under the global context|Axioms:)", log)
    chunks = [c for c in chunks if c.startswith("Closed under") or c.startswith("Axioms:")]
    axioms = {}
    for name, chunk in zip(printed, chunks):
        if chunk.startswith("Closed under"):
            axioms[name] = []
        else:
            axioms[name] = re.findall(r"^(\S+)\s*:", chunk[len("Axioms:"):], flags=re.M)
    res["theorems"] = thms
    res["axioms"] = axioms
    missing = [t for t in thms if t not in axioms]
    bad_ax = {t: a for t, a in axioms.items() if any(x not in ALLOWED_AXIOMS for x in a)}
    res["ok"] = not missing and not bad_ax and not res["gate"] and len(printed) == len(chunks)
    res["missing_print"] = missing
    res["bad_axioms"] = bad_ax
    return res


# ----------------------------------------------------------------------------- cases in Coq
class CaseRun:
    """Evaluate `check : case -> Z` over cases inside coqc with vm_compute, sharded in parallel."""

    def __init__(self, prop_id: str, tag: str, imports: str, case_type: str, check_fn: str, shard=200):
        self.prop_id, self.tag, self.imports, self.case_type, self.check_fn = prop_id, tag, imports, case_type, check_fn
        self.shard = shard
        self.dir = WORK / f"{prop_id}.{os.getpid()}.{tag}"

    def run(self, cases: list[str], timeout=900) -> list[int]:
        if not cases:
            return []
        self.dir.mkdir(parents=True, exist_ok=True)
        files = []
        for i in range(0, len(cases), self.shard):
            chunk = cases[i:i + self.shard]
            name = f"cases_{i // self.shard}"
            body = (f"{self.imports}\nOpen Scope Z_scope.\n"
                    f"Definition cases : list ({self.case_type}) :=\n {coq_list(chunk)}.\n"
                    f"Definition results : list Z := Eval vm_compute in map ({self.check_fn}) cases.\n"
                    f"Set Printing Width 100000.\nSet Printing Depth 1000000.\nPrint results.\n")
            (self.dir / f"{name}.v").write_text(body)
            files.append(name)
        procs = []
        out: dict[str, str] = {}
        maxpar = 12
        pending = list(files)
        running: list[tuple[str, subprocess.Popen]] = []
        while pending or running:
            while pending and len(running) < maxpar:
                n = pending.pop(0)
                p = subprocess.Popen(["timeout", str(timeout), "coqc", "-Q", str(COQ), "KV", "-w", "none", f"{n}.v"],
                                     cwd=self.dir, stdout=subprocess.PIPE, stderr=subprocess.STDOUT, text=True)
                running.append((n, p))
            n, p = running.pop(0)
            o, _ = p.communicate()
            out[n] = o if p.returncode == 0 else "ERROR " + o
        results: list[int] = []
        for k, n in enumerate(files):
            o = out[n]
            cnt = len(cases[k * self.shard:(k + 1) * self.shard])
            if o.startswith("ERROR"):
                self.last_error = o[-3000:]
                results += [-1] * cnt
                continue
            m = re.search(r"results\s*=\s*\[(.*?)\]\s*:\s*list Z", o, flags=re.S)
            vals = [int(x) for x in re.findall(r"-?\d+", m.group(1))] if m else []
            if len(vals) != cnt:
                self.last_error = f"could not parse results of {n}: {o[-500:]}"
                results += [-1] * cnt
            else:
                results += vals
        return results

    def eval_term(self, term: str, timeout=300) -> str:
        """Evaluate an arbitrary term with vm_compute and return Coq's printed text (for replay files)."""
        self.dir.mkdir(parents=True, exist_ok=True)
        (self.dir / "eval1.v").write_text(
            f"{self.imports}\nOpen Scope Z_scope.\nSet Printing Width 200.\nEval vm_compute in ({term}).\n")
        p = subprocess.run(["timeout", str(timeout), "coqc", "-Q", str(COQ), "KV", "-w", "none", "eval1.v"],
                           cwd=self.dir, capture_output=True, text=True)
        return (p.stdout + p.stderr)[-4000:]

    def cleanup(self):
        if not os.environ.get("VERIF_KEEP"):
            shutil.rmtree(self.dir, ignore_errors=True)


# ----------------------------------------------------------------------------- findings / verdict
def known_findings() -> dict:
    p = VERIF / "known_findings.json"
    if p.exists():
        return json.loads(p.read_text())
    return {"open": [], "fixed": []}


class Report:
    def __init__(self, prop_id: str, tier_: str):
        self.prop_id, self.tier = prop_id, tier_
        self.t0 = time.time()
        self.violations: list[dict] = []
        self.known: list[str] = []
        self.coverage: dict = {"samples": []}
        self.assumptions: list[str] = []
        self.obligations: list[str] = []
        self.discharged: list[str] = []
        self.notes: list[str] = []

    # proof obligations ------------------------------------------------------
    def add_props(self, res: dict, extra_names: list[str] | None = None):
        names = res.get("theorems", []) or [f"Props/{self.prop_id}.v"]
        self.obligations += names
        if res["ok"]:
            self.discharged += names
        else:
            why = []
            if res.get("gate"):
                why.append("forbidden tokens: " + "; ".join(res["gate"][:3]))
            if res.get("bad_axioms"):
                why.append(f"axioms: {res['bad_axioms']}")
            if res.get("missing_print"):
                why.append(f"no Print Assumptions for {res['missing_print']}")
            err = re.findall(r'File "\./([^"]+)", line (\d+).*?\n(Error:.*?)(?:\n\n|\Z)', res.get("log", ""), flags=re.S)
            if err:
                why.append("; ".join(f"{f}:{l}: {' '.join(e.split())[:200]}" for f, l, e in err[:3]))
            self.proof_failure = "; ".join(why) or res.get("log", "")[-400:]
        self.coverage["print_assumptions"] = res.get("axioms", {})

    # violations ---------------------------------------------------------------
    def violation(self, kind: str, what: str, replay: dict, key: str | None = None, found_input=True):
        """kind: 'impl-vs-spec' (concrete failing input) | 'model-mismatch' | 'proof-broken'."""
        for kf in known_findings().get("open", []):
            if kf["property"] == self.prop_id and key is not None and kf["key"] == key:
                line = f"KNOWN-FINDING: property={self.prop_id} {kf['what']}"
                if line not in self.known:
                    self.known.append(line)
                return
        self.violations.append({"kind": kind, "what": what, "replay": replay, "found_input": found_input})

    def finish(self, level="proof", checker_cmd=None) -> int:
        WORK.mkdir(exist_ok=True)
        EVID.mkdir(exist_ok=True)
        rc = 0
        for line in self.known:
            print(line)
        # order: concrete inputs first
        self.violations.sort(key=lambda v: not v["found_input"])
        out_lines = []
        if self.violations:
            rc = 1
            rdir = VERIF / "replays"
            rdir.mkdir(exist_ok=True)
            any_input = any(v["found_input"] for v in self.violations)
            shown = [v for v in self.violations if v["found_input"]][:5] if any_input else self.violations[:3]
            for v in shown:
                body = {"property": self.prop_id, **v}
                h = hashlib.sha256(json.dumps(body, sort_keys=True, default=str).encode()).hexdigest()[:12]
                path = rdir / f"{self.prop_id}-{h}.json"
                path.write_text(json.dumps(body, indent=1, default=str))
                tail = "" if v["found_input"] else " no-failing-input-found"
                out_lines.append(f"VIOLATION property={self.prop_id} replay={path}{tail}")
        for l in out_lines:
            print(l)
        cov = dict(self.coverage)
        if len(self.discharged) == len(self.obligations) and self.obligations:
            cov["obligations"] = len(self.obligations)
            cov["discharged"] = len(self.discharged)
        else:
            # proof cone did not check on this run: report it without claiming the proof-level keys
            cov["proof_obligations_failed"] = {"obligations": len(self.obligations), "discharged": len(self.discharged),
                                               "why": getattr(self, "proof_failure", "")}
        cov["obligation_names"] = self.obligations
        cov["checker_cmd"] = checker_cmd or f"cd /verif/coq && make Props/{self.prop_id}.vo  (coqc 8.16.1, full .vo build; Print Assumptions parsed from its output)"
        cov["trusted_base"] = TRUSTED_BASE
        if self.notes:
            cov["notes"] = self.notes
        if not cov.get("samples"):
            cov["samples"] = ["(none)"]
        ev = {
            "property_id": self.prop_id, "tier": self.tier, "seed": seed(), "level": level,
            "coverage": cov, "assumptions": self.assumptions,
            "wall_s": round(time.time() - self.t0, 2), "violations": len(self.violations),
        }
        (EVID / f"{self.prop_id}.json").write_text(json.dumps(ev, indent=1, default=str))
        print(f"[{self.prop_id}] tier={self.tier} obligations={len(self.discharged)}/{len(self.obligations)} "
              f"evaluations={cov.get('evaluations')} violations={len(self.violations)} known={len(self.known)} "
              f"wall={ev['wall_s']}s")
        return rc


def setup_impl_path(quiet=True):
    """Make `import kskm` resolve to /repo/src (current working tree)."""
    if quiet:
        import logging
        logging.disable(logging.CRITICAL)
    sys.path.insert(0, str(SRC))
    for k in list(sys.modules):
        if k == "kskm" or k.startswith("kskm."):
            del sys.modules[k]


def rng(tag: str = "") -> random.Random:
    return random.Random(f"{seed()}:{tag}")


def regen(*names: str):
    """Regenerate coq/Gen/<names>.v from /repo's working tree (fail closed inside gen.py)."""
    env = {**os.environ, "PYTHONPATH": str(SRC), "PYTHONHASHSEED": "0", "PYTHONDONTWRITEBYTECODE": "1"}
    subprocess.run([PY, "-B", str(VERIF / "translate/gen.py"), *names], env=env)


def classify(rep: "Report", props: dict, meta: list[dict], results: list[int], cases: list[str], runner: "CaseRun | None",
             checkname: str, max_report=40):
    """meta[i]: {'kind','desc','spec_ok','spec_msg','key'}. results[i]: 0 = model agrees with implementation."""
    mismatch = 0
    n_spec = 0
    for m, r, c in zip(meta, results, cases):
        if not m["spec_ok"]:
            n_spec += 1
            if n_spec <= max_report:
                rep.violation("impl-vs-spec", f"{m['kind']}: {m['spec_msg']}",
                              {"case": m["desc"], "kind": m["kind"], "coq_case": c[:3000]}, key=m.get("key"))
        elif r != 0:
            mismatch += 1
            if mismatch <= max_report:
                rep.violation("model-mismatch",
                              f"correspondence {checkname} broke on a {m['kind']} case: model and implementation differ while the "
                              f"implementation agrees with the independent reading of the property on this input",
                              {"correspondence": checkname, "case": m["desc"], "kind": m["kind"], "coq_case": c[:3000], "coq_result": r,
                               "runner_error": (getattr(runner, "last_error", "") or "")[:1500]}, found_input=False)
    if not props["ok"]:
        rep.violation("proof-broken", f"Props/{rep.prop_id}.v no longer checks: {getattr(rep, 'proof_failure', '')}",
                      {"theorem_or_bridge": f"Props/{rep.prop_id}.v", "detail": getattr(rep, "proof_failure", ""),
                       "log": props["log"][-1500:]}, found_input=False)
    rep.coverage["model_mismatches"] = mismatch
    rep.coverage["spec_disagreements"] = n_spec
    return mismatch, n_spec
