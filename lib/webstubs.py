"""fastapi / starlette are not installed in this environment: the few names kskm.wksr imports, as inert stand-ins.
(The HTTP stack is outside what C20 models; save_ksr, validate_ksr and ClientCertificateWhitelist.dispatch are called directly.)"""
import sys
import types


class HTTPException(Exception):
    def __init__(self, status_code, detail=None):
        super().__init__(status_code, detail)
        self.status_code = status_code
        self.detail = detail


def install():
    try:
        import fastapi  # noqa: F401
        import starlette  # noqa: F401
        return False
    except ImportError:
        pass

    class APIRouter:
        def _deco(self, *a, **kw):
            return lambda f: f
        get = post = _deco

    class FastAPI:
        def __init__(self, *a, **kw):
            pass

        def include_router(self, *a, **kw):
            pass

        def add_middleware(self, *a, **kw):
            pass

    class _Any:
        def __init__(self, *a, **kw):
            pass

    status = types.SimpleNamespace(HTTP_400_BAD_REQUEST=400, HTTP_403_FORBIDDEN=403, HTTP_413_REQUEST_ENTITY_TOO_LARGE=413)
    fastapi = types.ModuleType("fastapi")
    fastapi.APIRouter, fastapi.FastAPI, fastapi.HTTPException = APIRouter, FastAPI, HTTPException
    fastapi.Request = type("Request", (_Any,), {})
    fastapi.Response = type("Response", (_Any,), {})
    fastapi.UploadFile = type("UploadFile", (_Any,), {})
    fastapi.status = status
    templating = types.ModuleType("fastapi.templating")
    templating.Jinja2Templates = type("Jinja2Templates", (_Any,), {})
    fastapi.templating = templating
    starlette = types.ModuleType("starlette")
    mw = types.ModuleType("starlette.middleware")
    base = types.ModuleType("starlette.middleware.base")
    base.BaseHTTPMiddleware = type("BaseHTTPMiddleware", (_Any,), {})
    base.RequestResponseEndpoint = object
    st = types.ModuleType("starlette.templating")
    st._TemplateResponse = type("_TemplateResponse", (_Any,), {})
    sys.modules.update({"fastapi": fastapi, "fastapi.templating": templating, "starlette": starlette, "starlette.middleware": mw,
                        "starlette.middleware.base": base, "starlette.templating": st})
    return True
