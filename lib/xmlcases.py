"""Function-level correspondence cases for the XML reader (model = coq/Model/Xml.v)."""
from __future__ import annotations

import signal

import vlib
from vlib import txt, z, zlist


class Timeout(Exception):
    pass


def _alarm(*a):
    raise Timeout()


def run_timed(f, *a, budget=3):
    old = signal.signal(signal.SIGALRM, _alarm)
    signal.setitimer(signal.ITIMER_REAL, budget)
    try:
        return vlib.run_impl(f, *a)
    except Timeout:
        return ("exc", 0, "Timeout")
    finally:
        signal.setitimer(signal.ITIMER_REAL, 0)
        signal.signal(signal.SIGALRM, old)


def uniwords(s: str) -> str:
    import re
    return zlist(sorted({ord(c) for c in s if ord(c) >= 128 and re.match(r"\w", c)}))


def enc_val(v) -> str:
    if isinstance(v, str):
        return f"(VStr {txt(v)})"
    if isinstance(v, dict):
        return "(VNode [" + ";".join(f"({txt(k)}, {enc_val(x)})" for k, x in v.items()) + "])"
    if isinstance(v, list):
        return "(VList [" + ";".join(enc_val(x) for x in v) + "])"
    raise TypeError(type(v))


def enc_attrs(d) -> str:
    return "[" + ";".join(f"({txt(k)}, {txt(v)})" for k, v in d.items()) + "]"


def res(r, okfmt) -> str:
    return f"(OK {okfmt(r[1])})" if r[0] == "ok" else f"(Raise {r[1]})"


def case_parse(xp, s: str, ksr=False) -> str:
    r = run_timed(xp.parse_ksr if ksr else xp.parse, s)
    return f"CParse {uniwords(s)} {txt(s)} {vlib.coq_bool(ksr)} {res(r, enc_val)}", r


def case_tree(xp, doc: str):
    """CTree case for a document in the plain form (None when it is outside that form or the reader refuses it)."""
    import xmltree
    try:
        prolog, t = xmltree.to_tree(doc)
    except xmltree.NotPlain:
        return None
    if prolog + xmltree.ser(t) != doc:
        raise RuntimeError("xmltree: tokenizer does not reproduce the document")
    r = run_timed(xp.parse_ksr, doc)
    if r[0] != "ok":
        return None
    return f"CTree {txt(prolog)} {xmltree.coq_tree(t)} {txt(doc)} {enc_val(r[1])}"


def case_tag(xp, s: str) -> str:
    r = run_timed(xp._parse_tag, s)
    fmt = lambda t: f"({txt(t[0])}, {'None' if t[1] is None else '(Some ' + enc_attrs(t[1]) + ')'}, {z(t[2])})"
    return f"CTag {uniwords(s)} {txt(s)} {res(r, fmt)}", r


def case_attrs(xp, s: str) -> str:
    r = run_timed(xp._parse_attrs, s)
    return f"CAttrs {uniwords(s)} {txt(s)} {res(r, enc_attrs)}", r


def case_end(xp, s: str, start: int, name: str) -> str:
    r = run_timed(xp._find_end_of_element, s, start, name)
    return f"CEnd {txt(s)} {z(start)} {txt(name)} {res(r, lambda t: f'({z(t[0])}, {z(t[1])})')}", r


def case_strip(s: str) -> str:
    return f"CStrip {txt(s)} {txt(s.strip())}"


ALPHA = ['<', '>', '/', '=', '"', "'", 'a', 'K', 'S', 'R', '0', '_', ' ', ' ', '\t', '\n', '\r', 'é', ' ', 'µ', '-', '.', '\x1c', ' ', '²']


def rand_string(R, n):
    return "".join(R.choice(ALPHA) for _ in range(n))


def rand_tagish(R):
    """strings shaped like start tags, with the choice points of R1/R2 exercised"""
    name = R.choice(["a", "KSR", "K_1", "é", "Key", ""])
    ws = "".join(R.choice([" ", " ", "\t", "\n", "\r\n", " ", ""]) for _ in range(R.randrange(0, 4)))
    parts = []
    for _ in range(R.randrange(0, 4)):
        parts.append(R.choice(['id="x"', 'a="1"', "b='2'", 'c=""', 'd="q"r"', 'stray', 'e = "5"', 'f="a\nb"', '>', '/', 'g="7" ', '\n', ' ']))
    tail = R.choice([">", "/>", " />", "//>", ">x</a>", " >", "", "\n>", ">>"])
    return "<" + name + ws + R.choice([" ", ""]).join(parts) + tail + R.choice(["", "rest", "</a>", "\n<b>"])


def rand_attrish(R):
    parts = []
    for _ in range(R.randrange(0, 5)):
        parts.append(R.choice(['id="x"', 'a="1"', "b='2'", 'c=""', 'd="q"r"', 'stray', 'e = "5"', 'f="a\nb"', 'g="7"\n h="8"', 'é="ü"', 'x="""', 'a="2"', '="v"', 'n="v" trailing\nmore']))
    return R.choice(["", " ", "\n"]) + R.choice([" ", "  ", "\t", ""]).join(parts) + R.choice(["", " ", "\n", " \n x"])


def rand_doc(R, depth=0):
    """small documents, well-formed or slightly broken"""
    name = R.choice(["a", "b", "Key", "Signature", "KSR", "x1"])
    attrs = R.choice(["", "", ' id="1"', ' id="1" k="v"', " ", ' id="1" ', " q='1'"])
    form = R.randrange(10)
    if form == 0:
        return f"<{name}{attrs}/>"
    if form == 1:
        return f"<{name}{attrs or ' a=\"b\"'} />"
    ws = lambda: R.choice(["", " ", "\n", "\n  ", "\t"])
    if depth < 7 and R.random() < 0.55:
        body = ws().join(rand_doc(R, depth + 1) for _ in range(R.randrange(1, 4)))
    else:
        body = R.choice(["text", "", " 42 ", "a<b", "x > y", "DNSKEY", "<", "</"])
    close = R.choice([f"</{name}>"] * 8 + ["", f"</{name} >", "</zz>"])
    return f"<{name}{attrs}>{ws()}{body}{ws()}{close}"
