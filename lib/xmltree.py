"""Plain-form KSR/SKR documents as trees with their whitespace (independent tokenizer), rendered as Model.XmlTree terms.

Used to tie the premises of reader_extracts_tree (Props/C12.v) to real documents: for a document d the harness builds
(prolog, tree) with  prolog + ser(tree) == d  and lets Coq check  wf tree, height tree <= 5, prolog ++ ser tree = d  and
val_of tree = what the real reader returned."""
from __future__ import annotations

import re

from vlib import txt

START = re.compile(r'<(\w+)((?:[ \t]+\w+="[^"<>\n]+")*)([ \t]*)(/?)>')
ATTR = re.compile(r'([ \t]+)(\w+)="([^"]*)"')


class NotPlain(Exception):
    pass


def _ws_end(s: str, i: int) -> int:
    while i < len(s) and s[i].isspace():
        i += 1
    return i


def _elem(s: str, i: int):
    m = START.match(s, i)
    if not m:
        raise NotPlain(f"no plain start tag at {i}: {s[i:i + 40]!r}")
    name, attrtext, tail, selfclose = m.group(1), m.group(2), m.group(3), m.group(4)
    attrs = [(a.group(1), a.group(2), a.group(3)) for a in ATTR.finditer(attrtext)]
    if "".join(f'{a}{b}="{c}"' for a, b, c in attrs) != attrtext:
        raise NotPlain("attribute text")
    if tail and not attrs:
        raise NotPlain("blanks in a start tag without attributes")
    j = m.end()
    if selfclose:
        if not attrs:
            raise NotPlain("self-closing element without attributes")
        k = _ws_end(s, j)
        return ("E", name, (attrs, tail), s[j:k]), k
    k = _ws_end(s, j)
    close = f"</{name}>"
    if s.startswith("<", k) and not s.startswith("</", k):
        pre, kids = s[j:k], []
        while not s.startswith(close, k):
            if not s.startswith("<", k) or s.startswith("</", k):
                raise NotPlain(f"mixed content in <{name}>")
            c, k = _elem(s, k)
            kids.append(c)
        e = k + len(close)
        k2 = _ws_end(s, e)
        return ("N", name, (attrs, tail), pre, kids, s[e:k2]), k2
    e = s.find(close, j)
    if e < 0:
        raise NotPlain(f"no end tag for <{name}>")
    raw = s[j:e]
    if "<" in raw:
        raise NotPlain(f"text of <{name}> contains '<'")
    content = raw.strip()
    lpad = raw[:len(raw) - len(raw.lstrip())] if content else raw
    rpad = raw[len(lpad) + len(content):]
    e2 = e + len(close)
    k2 = _ws_end(s, e2)
    return ("L", name, (attrs, tail), lpad, content, rpad, s[e2:k2]), k2


def to_tree(doc: str):
    """-> (prolog, tree); raises NotPlain when the document is outside the plain form of Model.XmlTree"""
    i = doc.find("<KSR")
    if i < 0:
        raise NotPlain("no KSR element")
    t, k = _elem(doc, i)
    if k != len(doc):
        raise NotPlain("text after the KSR element")
    return doc[:i], t


def _attrs(at) -> str:
    a, tail = at
    return "[" + ";".join(f"({txt(s)}, {txt(k)}, {txt(v)})" for s, k, v in a) + "] " + txt(tail)


def coq_tree(t) -> str:
    if t[0] == "L":
        return f"(Leaf {txt(t[1])} {_attrs(t[2])} {txt(t[3])} {txt(t[4])} {txt(t[5])} {txt(t[6])})"
    if t[0] == "E":
        return f"(Empty {txt(t[1])} {_attrs(t[2])} {txt(t[3])})"
    return f"(Node {txt(t[1])} {_attrs(t[2])} {txt(t[3])} [{';'.join(coq_tree(c) for c in t[4])}] {txt(t[5])})"


def ser(t) -> str:
    """reference serialisation (must give the document back)"""
    a = "".join(f'{s}{k}="{v}"' for s, k, v in t[2][0]) + t[2][1]
    if t[0] == "L":
        return f"<{t[1]}{a}>{t[3]}{t[4]}{t[5]}</{t[1]}>{t[6]}"
    if t[0] == "E":
        return f"<{t[1]}{a}/>{t[3]}"
    return f"<{t[1]}{a}>{t[3]}" + "".join(ser(c) for c in t[4]) + f"</{t[1]}>{t[5]}"
