#!/bin/bash
# Build the framework from files on disk only (offline): regenerate coq/Gen from /repo, compile all Coq files.
set -e
cd "$(dirname "$0")"
export PYTHONHASHSEED=0 PYTHONDONTWRITEBYTECODE=1
mkdir -p work evidence replays cache coq/Gen
PYTHONPATH=/repo/src /venv/bin/python -B translate/gen.py || true
cd coq
coq_makefile -f _CoqProject -o Makefile $(find . -name '*.v' -not -path './work/*' | sed 's|^\./||' | sort) > /dev/null
find . -name '*.v' -not -path './work/*' | sed 's|^\./||' | sort > .files.tmp && tr '\n' '\n' < .files.tmp | sed '$!s/$//' > /dev/null; rm -f .files.tmp .files
timeout 3000 make -j16 2>&1 | tail -5
