#!/bin/bash
# Confirm each seeded change: applies cleanly to /repo HEAD in a scratch worktree, suite still 147 passed,
# demo exits 0 without / 1 with the patch. Writes seeded/<id>/confirm.txt
set -u
W=/tmp/seedchk.$$
git -C /repo worktree add -q --detach $W HEAD
for d in /verif/seeded/*/; do
  id=$(basename $d)
  [ -n "${1:-}" ] && [ "$1" != "$id" ] && continue
  ( cd $W && git checkout -q -- . && git clean -fdq
    base=$(KSKM_SRC=$W/src PYTHONPATH=$W/src timeout 600 /venv/bin/python $d/demo.py >/dev/null 2>&1; echo $?)
    if git apply --check $d/patch.diff 2>/dev/null; then
      git apply $d/patch.diff
      suite=$(PYTHONPATH=$W/src timeout 900 /venv/bin/python -m pytest -q -p no:cacheprovider src/kskm 2>&1 | tail -1)
      pat=$(KSKM_SRC=$W/src PYTHONPATH=$W/src timeout 600 /venv/bin/python $d/demo.py >/dev/null 2>&1; echo $?)
      git checkout -q -- . && git clean -fdq
      echo "$id applies=yes demo_unpatched=$base demo_patched=$pat suite='$suite'" | tee $d/confirm.txt
    else
      echo "$id applies=NO" | tee $d/confirm.txt
    fi )
done
git -C /repo worktree remove --force $W
