#!/usr/bin/env python3
"""One-off writer of coq/Spec/PgpWords.v: the pinned reference copy of the standard PGP word list
(Zimmermann/Juola 1995; even-position two-syllable words, odd-position three-syllable words).
The lists below were written out independently of /repo (from the published list) and are the
reference the repository's table is compared with; this script is not run by the checks."""
EVEN = """aardvark absurd accrue acme adrift adult afflict ahead aimless Algol allow alone ammo ancient apple artist assume Athens atlas Aztec
baboon backfield backward banjo beaming bedlamp beehive beeswax befriend Belfast berserk billiard bison blackjack blockade blowtorch bluebird bombast bookshelf brackish
breadline breakup brickyard briefcase Burbank button buzzard cement chairlift chatter checkup chisel choking chopper Christmas clamshell classic classroom cleanup clockwork
cobra commence concert cowbell crackdown cranky crowfoot crucial crumpled crusade cubic dashboard deadbolt deckhand dogsled dragnet drainage dreadful drifter dropper
drumbeat drunken Dupont dwelling eating edict egghead eightball endorse endow enlist erase escape exceed eyeglass eyetooth facial fallout flagpole flatfoot
flytrap fracture framework freedom frighten gazelle Geiger glitter glucose goggles goldfish gremlin guidance hamlet highchair hockey indoors indulge inverse involve
island jawbone keyboard kickoff kiwi klaxon locale lockup merit minnow miser Mohawk mural music necklace Neptune newborn nightbird Oakland obtuse
offload optic orca payday peachy pheasant physique playhouse Pluto preclude prefer preshrunk printer prowler pupil puppy python quadrant quiver quota
ragtime ratchet rebirth reform regain reindeer rematch repay retouch revenge reward rhythm ribcage ringbolt robust rocker ruffled sailboat sawdust scallion
scenic scorecard Scotland seabird select sentence shadow shamrock showgirl skullcap skydive slingshot slowdown snapline snapshot snowcap snowslide solo southward soybean
spaniel spearhead spellbind spheroid spigot spindle spyglass stagehand stagnate stairway standard stapler steamship sterling stockman stopwatch stormy sugar surmount suspense
sweatband swelter tactics talon tapeworm tempest tiger tissue tonic topmost tracker transit trauma treadmill Trojan trouble tumor tunnel tycoon uncut
unearth unwind uproot upset upshot vapor village virus Vulcan waffle wallet watchword wayside willow woodlark Zulu""".split()
ODD = """adroitness adviser aftermath aggregate alkali almighty amulet amusement antenna applicant Apollo armistice article asteroid Atlantic atmosphere autopsy Babylon backwater barbecue
belowground bifocals bodyguard bookseller borderline bottomless Bradbury bravado Brazilian breakaway Burlington businessman butterfat Camelot candidate cannonball Capricorn caravan caretaker celebrate
cellulose certify chambermaid Cherokee Chicago clergyman coherence combustion commando company component concurrent confidence conformist congregate consensus consulting corporate corrosion councilman
crossover crucifix cumbersome customer Dakota decadence December decimal designing detector detergent determine dictator dinosaur direction disable disbelief disruptive distortion document
embezzle enchanting enrollment enterprise equation equipment escapade Eskimo everyday examine existence exodus fascinate filament finicky forever fortitude frequency gadgetry Galveston
getaway glossary gossamer graduate gravity guitarist hamburger Hamilton handiwork hazardous headwaters hemisphere hesitate hideaway holiness hurricane hydraulic impartial impetus inception
indigo inertia infancy inferno informant insincere insurgent integrate intention inventive Istanbul Jamaica Jupiter leprosy letterhead liberty maritime matchmaker maverick Medusa
megaton microscope microwave midsummer millionaire miracle misnomer molasses molecule Montana monument mosquito narrative nebula newsletter Norwegian October Ohio onlooker opulent
Orlando outfielder Pacific pandemic Pandora paperweight paragon paragraph paramount passenger pedigree Pegasus penetrate perceptive performance pharmacy phonetic photograph pioneer pocketful
politeness positive potato processor provincial proximate puberty publisher pyramid quantity racketeer rebellion recipe recover repellent replica reproduce resistor responsive retraction
retrieval retrospect revenue revival revolver sandalwood sardonic Saturday savagery scavenger sensation sociable souvenir specialist speculate stethoscope stupendous supportive surrender suspicious
sympathy tambourine telephone therapist tobacco tolerance tomorrow torpedo tradition travesty trombonist truncated typewriter ultimate undaunted underfoot unicorn unify universe unravel
upcoming vacancy vagabond vertigo Virginia visitor vocalist voyager warranty Waterloo whimsical Wichita Wilmington Wyoming yesteryear Yucatan""".split()
assert len(EVEN) == 256 and len(ODD) == 256, (len(EVEN), len(ODD))
assert len(set(EVEN)) == 256 and len(set(ODD)) == 256 and not set(EVEN) & set(ODD)
if __name__ == "__main__":
    import sys
    enc = lambda w: "[" + ";".join(str(ord(c)) for c in w) + "]"
    rows = ";\n  ".join(f"({enc(a)},{enc(b)})" for a, b in zip(EVEN, ODD))
    open("/verif/coq/Spec/PgpWords.v", "w").write(
        "(* Pinned reference copy of the standard PGP word list (256 x 2): even-position word, odd-position word per byte value.\n"
        "   Written by tools/mk_pgpwords.py from an independent transcription of the published list; NOT generated from /repo. *)\n"
        "From KV Require Import Base.Prelude.\n\nDefinition standard_words : list (list Z * list Z) :=\n [" + rows + "].\n")
    print("written", len(EVEN), len(ODD))
