#!/usr/bin/env python3
"""Rebuild DESIGN.md section 10 from tools/design_asbuilt.md (10.1-10.7) and seeded/RESULTS.json (10.8-10.9)."""
import json
import re

V = "/verif"
r = json.load(open(f"{V}/seeded/RESULTS.json"))
rows = []
for k in sorted(r, key=lambda s: (s.split("-")[0], int(s.split("-")[1]))):
    m = json.load(open(f"{V}/seeded/{k}/meta.json"))
    cells = []
    for c, v in r[k].items():
        cells.append(f"{c}: " + ("failing input" if v.get("with_failing_input") else ("no-failing-input-found" if v.get("detected") else ("no check" if v.get("status") else "not reported"))))
    title = m["title"].replace("|", "/")
    if len(title) > 110:
        title = title[:107] + "…"
    rows.append(f"| {k} | {title} | {', '.join(m['files'])[:60]} | {'; '.join(cells)} |")
tab = "\n".join(rows)
n = len(r)
ROUNDS_WORD = "twelve"
txt = open(f"{V}/tools/design_asbuilt.md").read()
txt += f"""### 10.8 Seeded changes: which check catches which change

{n} breaking changes were produced in {ROUNDS_WORD} rounds by fresh sub-agents that saw only the text of one
property and a scratch worktree under /tmp (round 1: two per property, ids `Cnn-1`, `Cnn-2`;
round 2: one more per property, `Cnn-3`, asked to look away from the most obvious place; round 3:
`Cnn-4`, given one-line descriptions of the earlier changes to that property and asked for something
different in kind, in a helper nobody had touched; round 4: `Cnn-5`, given the descriptions of all
four earlier changes and asked for a change that needs a rare input - a particular byte pattern, a
second module, a process setting, a file already at the output path - to show; round 5: `Cnn-6`,
additionally pointed at kinds of slip not yet tried: state kept between calls, dependence on the
process environment, iteration order or identity, byte-length boundaries, broader/narrower `except`,
early exits from loops, truthiness of optional values; round 6: `Cnn-7`, asked for an effect that
shows only on an unusual but legitimate input or situation; round 7: `Cnn-8`, the same with all
earlier descriptions listed and interactions of two features, error and clean-up paths and values at
the edge of their range suggested; round 8: `Cnn-9`, pointed at the way the code uses its libraries
and at the stand-alone tools; round 9: `Cnn-10`, the same brief with nine earlier descriptions per
property to stay away from; round 10: `Cnn-11`, additionally told which slips had been used for
*any* property, so that none would be re-used across properties; round 11: `Cnn-12`, ten properties
only - C02, C04, C05, C06, C07, C11, C14, C16, C17, C19 - for lack of time; round 12: `Cnn-13`,
four properties - C05, C11, C14, C18 - in the last forty minutes). Each
was confirmed by me (applies to HEAD, suite still 147 passed, its own `demo.py` exits 0 without
and 1 with the change — `seeded/<id>/confirm.txt`) and is kept as
`seeded/<id>/{{patch.diff, demo.py, notes.md, meta.json}}`. `tools/seed_matrix.py` applies each to
`/repo`, runs the quick check of its property (and of neighbouring properties where the change
sits in shared code), and reverts. Result of the last sweep (`seeded/RESULTS.json`): **every
change is reported by the check of its own property with a concrete failing input** as
replay; neighbouring checks that share the code often report it too, some only as a broken
correspondence or bridge (`no-failing-input-found`), some not at all (their property does not
depend on the changed behaviour for the inputs they generate). The own-property entry of each row
is from the last sweep over all changes; the entries of neighbouring checks are from the sweep of the
round in which the change was added (they were not re-run at the end, and those checks have gained
inputs since).

| seed | change | file(s) | reported by |
|---|---|---|---|
{tab}

What the seeded changes taught, and what was added to the checks because of them:

* Round 1, missed on first run: C07-2 (equal key tags within a bundle) → equal-key-tag pairs in
  the generator; C01-1/C01-2 → ZSK pairs whose base64 order differs from octet order, and a KSK
  whose tag computation carries; C16-1 was found only through the bridge → unconditional
  algorithm rules added to the flag matrix.
* Round 2, missed on first run: C09-3 (the revoked-key exemption computed over all bundles
  instead of per bundle) → schema family "signs un-revoked, revoked in slot j, gone
  afterwards" added to C09's generator; C11-3 (two keys with the same key tag collapse to one
  `<Key>` on output) → ZSK pairs with colliding key tags in the SKR round-trip generator.
* Round 2, added after reading the change descriptions and before running the checks against
  them (so their first run already caught them; without the addition the property's own check
  would very probably have missed them): C01-3/C02-3/C14-3 (revoked tag computed as tag + 128)
  → public-key octets steered so that setting the REVOKE bit carries, and an EC KSK with that
  property in the signing scenarios; C18-3 (key tag fold without the final mask) → a configured
  KSK whose fold overflows; C03-3 (`zip` truncating the bundle list to the schema) → a schema
  with fewer slots than the KSR has bundles; C17-3 (bundle table drops fractional seconds) →
  the table is now read back and compared with the parsed instants; C10-3 → a re-keyed KSR that
  re-uses the published identifiers.
* Round 3, missed on first run by the property's own check (all now caught with a failing input):
  C05-4 (`if not overlap: continue` - a zero overlap skips the overlap rule) -> back-to-back bundles
  under every flag subset; C06-4 (size comparison skipped when the exponent is waived) -> declared
  size mismatch with the waiver on; C07-4 (process-wide cache of decoded keys by identifier) -> a
  later bundle listing another key under a known identifier, signed by the first key; C09-4
  (`create_skr` copies publish_safety into retire_safety; caught by C02's header check, not by
  C09's) -> SKRs made by the real `create_skr` under unequal periods fed to the safety check;
  C01-4 (EC point unwrapping without the inner 0x04 test; caught by C15's check) -> an EC KSK whose
  X coordinate starts with the wrapper's length octet in C01's signing scenarios. Reported only
  through the correspondence at first: C08-4 (replay test on (id, serial)) - my replayed-id KSRs
  also re-used the bundle ids, so another rule refused them; they now carry fresh bundle ids and
  other serials; C12-4 (attribute regexp accepting either quote) -> apostrophes and other
  ordinary characters in attribute values of the conformant documents (and the harness no longer
  stops when the reader refuses a conformant document: that is now a reported violation; the
  launcher also turns any harness stop into a `no-failing-input-found` violation).
* Round 3, added after reading the descriptions and before the first run: C17-4 (hex digest printed
  without leading zeros) -> documents and blobs steered to digests starting with 0 / 00 / 000;
  C15-4 = C01-4; C04-4 (validity timestamps re-labelled as UTC) -> the window lattice written with
  UTC offsets; C02-4 (module-level key cache by label) -> two ceremonies in one process whose
  tokens hold different keys under the same labels; C03-4 (output opened before serialising) -> a
  ceremony whose SKR cannot be serialised, output path watched; C08-4 see above.
* Round 4 was by far the hardest: on the first sweep the property's own check reported 6 of the 20
  with a failing input (C01, C07, C10, C14, C18, C19 - three of them only because inputs had been
  added after reading the descriptions: TTL 0 in the configuration, EC keys whose X coordinate
  starts with 0x04), 2 only through the correspondence (C04, C06) and 12 not at all. All twenty
  are now reported with a failing input. What was added, per change:
  C02-5 (SKR writer indexes keys by key tag) -> every signing scenario of C02 now also puts the
  signed bundles through the tool's own writer and reads the document with ElementTree, plus
  bundles with colliding tags; C03-5 (RSA verification left-pads a short signature) -> a token
  fault `strip-zero` (RSA result returned as a minimal-length integer) and a search over cycle
  starts until the reference signer says one requested signature begins with a zero octet, and in
  C07 the same for proofs of possession (leading zero dropped / one zero prepended); C04-5
  (`get_p11_key` swallows a module's exception and searches on) -> first module ambiguous or
  unreadable, second module clean; C15-5 (wrong De Morgan in `load_pkcs11_key`: a private key's
  public part is replaced by the first public object carrying the label) -> signing through
  78 two-slot/two-module layouts built from {{empty, noise, pubA, pubB, privB, privB+pubB}} in C15
  and sign-only cases in C04; C05-5 (`astimezone` instead of `replace` in `parse_datetime`) ->
  the lattice around the horizon/expiry bounds with timestamps written without an offset (the
  form of the archived KSRs) and the process in three other time zones (`TZ=VRF+05` etc.), and
  the bundle times read are compared with those written; C06-5 (key tag with end-around carry
  loop) -> a ZSK whose tag sum overflows after the fold; C08-5 (duplicate key identifiers no
  longer refused when validating a bundle) -> previous SKR files publishing our key and a foreign
  key under one identifier, signed by the foreign key, through `load_skr` + chain check with a
  token holding only ours; C09-5 (safety check moved after the write) -> whole ceremonies through
  the real `ksrsigner` in C09 itself, output path observed ("released" is the file); C11-5
  (`os.open` without `O_TRUNC`) -> `output_skr_xml` over earlier files of several lengths, file
  bytes compared with the document (and a long earlier file in C03's clean ceremonies); C12-5
  (declared algorithms de-duplicated by (algorithm, size)) -> the loaded request is compared field
  by field with the generator's data, and policies declare entries differing in one parameter
  only; C13-5 (nested-quantifier regexp in the duration reader) -> every text field of a signed
  KSR/SKR replaced in turn by backtracking-prone and over-long contents; C16-5 (`search` instead
  of `match` in the duration reader) -> a table of 33 unparsable durations in `ksk_policy` -
  which also turned up a defect of the unchanged code (newline; fix dcc9fff below); C17-5
  (configuration hashed from a text-mode read) -> configuration files with CRLF / mixed / BOM /
  non-ASCII comment / CR-only forms, logged digest against the file's bytes; C20-5 (`lru_cache` on
  `load_skr`) -> the previous SKR file replaced between uploads, with expectations that come from
  how the documents were built instead of from a second call of the same loader.
* Round 5: on the first sweep the property's own check reported 8 of the 20 with a failing input
  (C02, C04, C11, C12, C13, C17, C18, C19; two of the changes repeated round-4 ideas), one only
  through the bridge (C16) and 11 not at all - though 9 of those 11 were reported with a failing
  input by a neighbouring property's check run in the same sweep. All twenty are now reported by
  their own property's check with a failing input. What was added:
  C01-6 (= C02-5, writer drops a key with a colliding tag) -> C01's scenarios also go through the
  writer and include colliding tags; C03-6 (`check_last_skr_key_present` guarded by the flag of the
  neighbouring rule) -> previous SKR signed by another key under our label, under every subset of
  the other chain flags; C05-6 (cycle rule skipped for fewer than two bundles) -> one-bundle
  requests under cycle bounds that exclude zero; C06-6 (domain membership as substring of the joined
  list) -> lists with longer names and request domains that are parts, parents and joins of them;
  C07-6 (= C05-5) -> honest and tampered bundles under other process time zones and offset-less
  timestamps, now with an expectation that comes from how the document was built (honest = accept)
  next to the rule transcription (`reqcases.judge(built=...)`; a loader refusal of an honest
  document is reported too); C08-6 (decoded public keys cached by identifier, process-wide) -> a
  previous SKR whose first bundle publishes a foreign key under an identifier this process has
  never seen and whose later bundles publish ours but are signed by the foreign key, then the honest
  file; C09-6/C11-6 (= C20-5, `lru_cache` on `load_skr`) -> C09's ceremonies now use one fixed
  directory, so that the previous SKR is "whatever is at that path now"; C10-6 (response validation
  stops after the first bundle) -> ceremonies whose previous-SKR file is the emitted one with one
  signature octet changed (first / middle / last signature); C14-6 (`lstrip(b"\x04")`) -> token
  points whose X coordinate begins with one to three 0x04 octets, bare and wrapped; C15-6
  (environment restored by truthiness) -> empty, blank and "0" values in the base environment;
  C16-6 (`'.'.join(err['loc'])` with integer locations) -> the exit status for errors located in
  list elements, numbered schema slots and nested key entries; C20-6 (`dt_now` as default argument)
  -> uploads for a later year judged with the clock set to that year, expectations by construction.
* Round 6: on the first sweep the property's own check reported 6 of the 20 with a failing input
  (C01, C08, C10, C14, C15, C20), one through a harness stop (C11: the tool's data classes refused
  a response my harness constructs; now a reported violation with the input) and 13 not at all - 7
  of those were reported with a failing input by a neighbouring property's check. All twenty are
  now reported by their own property's check with a failing input. What was added:
  C02-7 (RSA key taken from the token's raw exponent octets) -> tokens that report the public
  exponent with leading zero octets (emulator option; also in C01/C15 layouts); C03-7 (= C09-3,
  revoked-key exemption over the whole SKR) -> three-bundle ceremonies with a sign / sign+revoke /
  gone schema in C03; C04-7 (= C05-5 on the KSR side) -> C04's scenarios can now enter through the
  KSR document (`via_xml`), run under other process time zones with offset-less timestamps;
  C05-7 (bundle validity cached by the first eight characters of the bundle id) -> bundle ids in
  four styles (short, named by quarter, UUID, long common prefix); C06-7 (acceptable domains
  lower-cased at load) -> mixed-case domains with an expectation taken from the list as configured,
  not as read back from the policy object; C07-7 (`strip()` on the decoded key octets) -> RSA keys
  whose modulus ends in 0x09 / 0x0b / 0x0d; C09-7 (configured previous SKR wins over
  `--previous_skr`) -> ceremonies in which configuration and command line name different previous
  SKRs with different verdicts; C12-7 (`str_strip_whitespace` on the data classes) -> identifiers
  with leading/trailing blanks compared character for character with the generator's strings (and
  tabs, which surfaced the attribute-value normalisation finding); C13-7 (`assert` instead of
  `raise`) -> the loader run in interpreters started with -O, -OO and PYTHONOPTIMIZE=1 on valid and
  invalid KSRs; C16-7 (`regex_engine="python-re"`: `$` matches before a final line break) ->
  pattern-constrained options with a line break before/after an otherwise valid value; C17-7
  (= C11-5) -> the ceremony of C17 writes over nothing / a shorter / a much longer file; C18-7
  (= C14-5) -> public RSA objects given by raw attributes with exponents of 1, 3, 4, 254, 255, 256,
  257 octets; C19-7 (= C06-5) -> inventory of a configured KSK whose key-tag sum carries after the
  fold, with its true tag and with tag + 1.
* Round 7 (`Cnn-8`): this time I read the twenty descriptions before the first sweep and added the
  inputs they called for; the first sweep then had 18 of 20 reported by their own check with a
  failing input, C19-8 only through a harness stop and C11-8 not at all. Added before the sweep:
  C01 DS digests configured in lower/mixed case; C03 "the token attached to this ceremony made
  every requested signature" (sign log against the schema); C04 every algorithm name the
  configuration accepts claimed for an RSA token key; C05 equal expirations with fixed bundle ids;
  C06/C12 EC keys whose X coordinate starts with 0x04; C07 key pairs whose octet order differs from
  the order of their base64 texts; C08 keys on a second HSM / split over HSMs; C09 schemas with a
  gap before the next signer; C10 ZSK twins with colliding key tags rolled through a ceremony
  chain; C11 the safety check called between signing and writing; C13 the log-contents switches
  with brace patterns in field values; C14 `hexdigest`/`to_xml` on digests with leading zeros;
  C16 key tags 1 and 65535; C17 the size cap against the logged digest; C18 two configured EC KSKs
  with equal key tags; C19 inventory of a token key with tag 65535; C20 another key under a known
  identifier with an expectation by construction. Added after the sweep: C11-8 (the retire-safety
  check, rewritten with set operations, removes revoked keys from the response it is checking) ->
  C11 now signs a roll-with-revocation after an SKR signed by one key, runs both safety checks
  against it and compares the response with a freshly built one before writing; C19-8 (key tag
  upper bound exclusive) -> a configuration with possible key tags that is refused is a reported
  violation with the configuration as replay, not a harness stop.
* Round 8 (`Cnn-9`) was the hardest: the first sweep had only 3 of 20 reported by their own check
  with a failing input (C02, C06, C15), 3 more through a broken bridge or correspondence without
  an input (C04, C05, C18) and 14 not at all. Four of the twenty (C08-9, C10-9, C20-9 and in
  effect C04-9) depend on the process environment. All twenty are now reported by their own
  property's check with a failing input. What was added:
  C08-9/C10-9/C20-9 (`astimezone` instead of `replace(tzinfo=utc)` in `parse_datetime`: zone-less
  and `Z` timestamps read in the host's time zone) -> file-to-verdict cases in C08 (overlap lattice
  x {{UTC, JST-9, PST8, IST-5:30}} x three timestamp notations), every C10 ceremony run under a zone
  and notation taken in turn from a list (and the emitted SKR's periods compared with the KSR's),
  C20 uploads judged by a receiver running in another zone, expectations by construction;
  C01-9 (public object's session used with the private handle) -> public object on the first HSM,
  private object without public attributes on the second, other pairs in front so that handles
  differ; C03-9 (a failed login is retried at the next key lookup) -> an error *returned by the
  token* at any position must end the ceremony unsuccessfully (previously a run that still produced
  a complete valid SKR was tolerated), and every session set-up step is always among the fault
  positions; C04-9 (`assert` instead of `raise` for size/exponent) -> C04's deterministic scenarios
  are judged a second time in a child interpreter started with `-O`; C05-9 (cycle length as
  max - min of the inceptions) -> timelines whose last, first or a middle bundle starts out of step,
  bounds placed on the span and on the widest distance; C07-9 (Original TTL 0 replaced by the TTL
  through `or`) -> Original TTL 0 honestly signed and as a tampering - and, more generally,
  `lib/etread.py`: every KSR document judged through `reqcases` is also read with ElementTree and
  the standard library, and the implementation's parsed bundles, keys and signatures are compared
  with it field by field, so that a misreading shared by implementation and spec transcription is
  reported as "judged on values the document does not state"; C09-9 (`P1W4D` read as seven days)
  -> the configured safety periods written in weeks, hours, minutes, seconds and mixed notations in
  C09's ceremonies and in C16's value table; C11-9 (`splitlines()` in the writer's indenter) ->
  bundle, request and key identifiers containing U+2028, U+2029, U+0085, inner blanks, non-ASCII
  letters; C12-9 (`b64decode(validate=True)` for EC keys) -> base64 content broken into lines
  (one key written the same way wherever it occurs - see the observation below), octets and verdict
  compared with the one-line form; C13-9 (decoded keys cached by identifier for the life of the
  process) -> sequences of files in one loader process in which a later file lists other keys under
  known identifiers, signed by the first file's keys or honestly, and the loader worker re-verifies
  every signature of a returned object with the cryptography library alone; C14-9 (RRSIG key tag
  taken from the un-revoked form) -> the signer run on a revoke-and-sign schema for all four
  algorithms inside C14, RRSIG key tag compared with the published DNSKEY's; C16-9 (`and ... or
  ignore_exponent` without parentheses) -> rows "key size not declared" and "key exponent not
  declared" in the one-flag-one-check matrix; C17-9 (write error swallowed, digest logged anyway)
  -> the trust-anchor exporter run into a missing directory, onto a directory and with a write that
  fails half way, the logged digest compared with what the named file holds; C18-9 (digest printed
  with `int` formatting) -> configured KSKs whose DS digest begins with one and two zero digits;
  C19-9 (file log handler lowered to WARNING when stderr is no terminal) -> `kskm-keymaster`'s
  `main()` run with its own logging set-up and a non-terminal stderr: keygen, inventory, keydelete
  with 'yes' and 'Yes'; what counts as reported is stderr plus the log file it opens.
  Observation from C12-9's input (not a finding under any of the twenty properties): key identity
  across bundles is decided on the base64 *text*; the same ZSK written on one line in one bundle and
  broken into lines in another is reported as "key tag matches two different keys".
* Round 9 (`Cnn-10`): first sweep 3 of 20 reported by their own check with a failing input (C03,
  C06, C08), 2 through a broken bridge without an input (C11, C16), 15 not at all - 11 of those were
  reported with a failing input by a neighbouring property's check. Several sub-agents
  independently re-used a slip that an earlier round had used for *another* property (the
  `astimezone` reading of zone-less timestamps for C01 and C12, `splitlines()` for C02, the
  `zip(bundles, schema.actions.values())` pairing for C10): inputs added for one property's check do
  not protect its neighbours, so each of those inputs now also exists in the neighbour. All twenty
  are now reported by their own property's check with a failing input. What was added:
  C01-10/C12-10 (time zone) -> C01 signs KSR *documents* read in four zones and three notations with
  the KSK's validity window set exactly to the first inception and last expiration (and compares the
  written SKR's instants, not their text), C12 compares the typed timestamps of documents read in
  other zones with the generator's instants; C02-10 (`splitlines`) -> bundle and key identifiers
  with U+2028/U+2029/U+0085, blanks and non-ASCII letters through signing and the written SKR;
  C04-10 (key tag folds the second carry back in) -> a KSK whose tag sum carries twice, configured
  with its tag, tag+1 and tag-1, with and without DS, as signer and published-only; C05-10 (options
  dropped by truthiness when the configuration is loaded) -> the request policy written as YAML
  text and loaded through the configuration reader, one check switched off there and one rule
  violated, zero-valued options; the loaded policy is compared with the written one; C07-10 (TTL
  upper bound exclusive) -> honest bundles with TTL 0, 1, 2^31-2, 2^31-1; C09-10 (response
  signatures keyed by key tag) -> a previous SKR *file* whose bundles are signed by two KSKs with
  the same key tag, successors that withdraw either of them; C10-10 (schema slots paired by
  position) -> the ceremony configuration lists every schema's slots rotated or reversed; C11-10
  (SKR reader re-sorts bundles by inception) -> responses in which a bundle starts before its
  predecessor and expires after it; C13-10 (signatures collapsed per key identifier) -> bundles
  carrying a second, non-verifying signature under the identifier of a validly signing key, before
  and after the good one, KSR and SKR; C14-10 (`model_construct` skips the curve/size validator)
  -> `public_key_to_dnssec_key` on points of the other curve, one octet short, two long, with and
  without SEC1 prefix, and on impossible flags; C15-10 (located keys memoised per module without
  the hash mode) -> sequences of look-ups of one label on one module object under different hash
  modes, the token's sign log compared with the reference per step, and a look-up after the objects
  were removed; C16-10 (the token check reads the wrong option) -> a one-flag-one-check matrix for
  the three chain rules; C17-10 (ZSK tags of a table row collected in a set) -> bundles holding two
  ZSKs with equal key tags, the row's tag column compared as a multiset; C18-10 (`os.open` without
  `O_TRUNC`) -> every second export in C18 writes over a longer anchor document; C19-10 (`--hsm`
  overwritten by the sub-parser's default) -> `main()` with two configured HSMs holding the same
  label, keygen and keydelete with `--hsm` naming each in turn; C20-10 (first same-size RSA entry
  decides) -> ZSK policies declaring two exponents for one algorithm and size, both listing orders,
  six exponent values (set iteration order decides which is met first).
* Round 10 (`Cnn-11`): first sweep 4 of 20 reported by their own check with a failing input (C01,
  C03, C04, C06), 2 through a broken bridge without an input (C11, C14), 14 not at all - 8 of those
  were reported with a failing input by a neighbouring property's check. Two mutants made behaviour
  depend on whether debug logging is on (a generator consumed by the debug listing), three used
  pydantic's `str_strip_whitespace` on different base classes. All twenty are now reported by their
  own property's check with a failing input. What was added:
  C02-11/C09-11/C19-11 (blanks stripped from attribute values / data-class strings / token labels)
  -> C02 signs requests read from KSR *documents* whose request, bundle and key identifiers begin
  or end with a blank; C09 reads a previous SKR file that publishes another key under "Knext " and
  lets "Knext" start signing; C19 inventories tokens whose pair labels differ only by a trailing
  blank, with a KSK configured under the exact label; C05-11 (a data-class validator refuses
  expiration <= inception while the document is read) -> zero-length and inverted bundles with
  every timing check off, zero-length bundles under a declared minimum of PT0S, and a refusal
  during reading is now judged against the documented region instead of stopping the harness;
  C07-11 (repeated child elements collected with `groupby`) -> bundles whose Key and Signature
  elements are interleaved in three layouts; C08-11 (`<Protocol>` no longer in the RDATA) -> previous
  SKRs with a KSK's Protocol, Flags or Algorithm changed after signing (and Protocol tampering in
  C07); C10-11 (`abs()` on the overlap) -> ceremonies fed a KSR that starts 9.5 days after the
  previous SKR ends, and gaps of every acceptable overlap's length in C08; C11-11 (`html.escape` in
  the writer) -> apostrophes, semicolons and `#x27;` in identifiers; C12-11 (= C03-11, `all()` over
  checks that return None) -> SKRs with one bad signature in a later bundle, refused in every
  document order; C13-11/C14-11 (debug listing consumes a generator) -> `vlib.debug_logging()`: the
  loader worker and a third of C14's to-be-signed cases run with the root logger at DEBUG as the
  tools' `--debug` sets it, invalid documents must still be refused; C15-11 (new `KeyType`
  member falls through a `match` without default) -> every member of `KeyType` other than RSA/EC,
  two key classes, five algorithm/hash-mode combinations; C16-11 (configured offsets discarded) ->
  `valid_from`/`valid_until` written with +02:00, -05:00, +05:30, Z and as YAML timestamps, compared
  as instants; C17-11 (`is_sep_key` by equality) -> a three-bundle SKR with a revoked KSK, ZSK and
  KSK columns of each row; C18-11 (configured anchor path wins over `--trustanchor`) -> exports with
  both given, the command-line file judged; C20-11 (`read(MAX)` then a length test that cannot
  fire) -> uploads of 1 MiB + 1, 1 MiB + 4 KiB and 1 MiB of valid KSR followed by junk, expected
  not-OK. A harness bug of mine surfaced on the way (C20's model case took 16 MiB for the loader's
  cap) and was corrected; a false alarm of mine as well (the inventory prints labels in a padded
  column, so labels that differ by a trailing blank cannot be told apart in its text: the check now
  counts pairs and KSK lines instead of comparing label text).
* Round 11 (`Cnn-12`, ten properties): first sweep 6 of 10 reported by their own check with a
  failing input (C04, C05, C06, C11, C14, C17), one through the regenerated bridge only (C07), three
  not at all (C02, C16, C19). All ten are now reported with a failing input. Added: C02-12 (key tag
  returned without the final 16-bit mask) and C07-12 (every carry folded back) -> KSKs and a ZSK
  whose key tag sum carries a second time, in the plain and in the revoked form, published, signing
  and revoked (C02), honestly tagged in a KSR judged with the key check on (C07: the tag comparison
  belongs to the key check, which C07's policy had off); C16-12 (a mapping accepted where a list of
  key names is expected) -> schema options given as mappings, numbers, nested lists; C19-12 (SEC1
  prefix stripped from an already bare point) -> inventory of configured EC KSKs whose X coordinate
  begins with 0x04 or 0x00, on tokens that return the point wrapped and bare.
* Round 12 (`Cnn-13`, four properties): first run 2 of 4 reported by their own check with a failing
  input (C11-13: RSASHA512 signatures verified with SHA-256; the first draft of the C18 strengthening),
  two not at all (C05, C14). All four are now reported with a failing input. Added: C18-13
  (`get_p11_key` asks only the first module) -> tokens of two modules with the configured KSKs
  spread over them, and an empty module before as well as after the one that holds the keys; C05-13
  (a duration with a week part stops being read at the `W`) -> one request in three declares its
  bounds in another ISO 8601 spelling of the same periods (P2W1D, PT360H, P14DT24H, minutes,
  seconds); C14-13 (`round` instead of `int` on the signature times) -> expiration and inception of
  the to-be-signed cases carry 0, 1, 499999, 500000, 750000 or 999999 microseconds (the model
  already floors; only whole seconds had been generated).
* Everything else in the {ROUNDS_WORD} rounds was caught by the check as it stood.

### 10.9 Running it

`./setup.sh` (once per checkout; regenerates `coq/Gen`, full build), then `./check Cnn --tier
quick|thorough`. Every run regenerates the pieces of `coq/Gen` the property depends on from
`/repo`'s working tree, rebuilds `Props/Cnn.v` and its cone, re-evaluates the correspondence
and rewrites `evidence/Cnn.json`. Quick runs take 5-70 s per property (C08, C12, C13: about a
minute - C13 because of the watchdog budget, which is CPU time of the loading process, not
wall-clock), the whole quick pass about 10 min on 16 cores; the last full thorough pass over all
twenty properties (2026-10-02 20:18-20:49Z) took 31 min and reported no violation on the unchanged
tree; the twelve checks changed afterwards (debug-logging rotation, round 11) were re-run at the
thorough tier (21:44-22:05Z, no violation); the committed `evidence/*.json` are from the quick pass
run after the last change (22:05-22:14Z). The last sweep of `tools/seed_matrix.py` over the 220 seeded changes of rounds 1-10 (own property's
check only, 18:25-20:09Z) had every one reported with a failing input; the ten of round 11 and the four of round 12 were swept on their own afterwards. Session 3 (22:27Z on) added the injectivity theorems of C11 and C18 (`C11_duration_text_injective`, `C11_timestamp_text_injective`, `C18_written_forms_injective`) and re-ran C05, C11, C14, C18 on the unchanged tree after the strengthening (no violation; their committed evidence is from those runs). `coqchk -o` over the twenty
`Props` files was re-run after the last Coq change (20:59Z, 5m44s): no axioms, nothing relying on
type-in-type, unsafe fixpoints or assumed positivity (`evidence/coqchk.txt`).
"""
d = open(f"{V}/DESIGN.md").read()
i = d.find("\n---------------------------------------------------------------------------------------------\n\n## 10. As built")
if i >= 0:
    d = d[:i]
open(f"{V}/DESIGN.md", "w").write(d.rstrip("\n") + "\n" + txt)
print("DESIGN.md section 10 rebuilt,", n, "seeded changes")
