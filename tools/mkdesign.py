#!/usr/bin/env python3
"""Rebuild DESIGN.md section 10 from tools/design_asbuilt.md (10.1-10.7) and seeded/RESULTS.json (10.8-10.9)."""
import json
import re

V = "/verif"
r = json.load(open(f"{V}/seeded/RESULTS.json"))
rows = []
for k in sorted(r, key=lambda s: (s.split("-")[0], int(s.split("-")[1]))):
    m = json.load(open(f"{V}/seeded/{k}/meta.json"))
    cells = []
    for c, v in r[k].items():
        cells.append(f"{c}: " + ("failing input" if v.get("with_failing_input") else ("no-failing-input-found" if v.get("detected") else ("no check" if v.get("status") else "not reported"))))
    title = m["title"].replace("|", "/")
    if len(title) > 110:
        title = title[:107] + "…"
    rows.append(f"| {k} | {title} | {', '.join(m['files'])[:60]} | {'; '.join(cells)} |")
tab = "\n".join(rows)
n = len(r)
txt = open(f"{V}/tools/design_asbuilt.md").read()
txt += f"""### 10.8 Seeded changes: which check catches which change

{n} breaking changes were produced in three rounds by fresh sub-agents that saw only the text of one
property and a scratch worktree under /tmp (round 1: two per property, ids `Cnn-1`, `Cnn-2`;
round 2: one more per property, `Cnn-3`, asked to look away from the most obvious place; round 3:
`Cnn-4`, given one-line descriptions of the earlier changes to that property and asked for something
different in kind, in a helper nobody had touched). Each
was confirmed by me (applies to HEAD, suite still 147 passed, its own `demo.py` exits 0 without
and 1 with the change — `seeded/<id>/confirm.txt`) and is kept as
`seeded/<id>/{{patch.diff, demo.py, notes.md, meta.json}}`. `tools/seed_matrix.py` applies each to
`/repo`, runs the quick check of its property (and of neighbouring properties where the change
sits in shared code), and reverts. Result of the last sweep (`seeded/RESULTS.json`): **every
change is reported by the check of its own property with a concrete failing input** as
replay; neighbouring checks that share the code often report it too, some only as a broken
correspondence or bridge (`no-failing-input-found`), some not at all (their property does not
depend on the changed behaviour for the inputs they generate).

| seed | change | file(s) | reported by |
|---|---|---|---|
{tab}

What the seeded changes taught, and what was added to the checks because of them:

* Round 1, missed on first run: C07-2 (equal key tags within a bundle) → equal-key-tag pairs in
  the generator; C01-1/C01-2 → ZSK pairs whose base64 order differs from octet order, and a KSK
  whose tag computation carries; C16-1 was found only through the bridge → unconditional
  algorithm rules added to the flag matrix.
* Round 2, missed on first run: C09-3 (the revoked-key exemption computed over all bundles
  instead of per bundle) → schema family "signs un-revoked, revoked in slot j, gone
  afterwards" added to C09's generator; C11-3 (two keys with the same key tag collapse to one
  `<Key>` on output) → ZSK pairs with colliding key tags in the SKR round-trip generator.
* Round 2, added after reading the change descriptions and before running the checks against
  them (so their first run already caught them; without the addition the property's own check
  would very probably have missed them): C01-3/C02-3/C14-3 (revoked tag computed as tag + 128)
  → public-key octets steered so that setting the REVOKE bit carries, and an EC KSK with that
  property in the signing scenarios; C18-3 (key tag fold without the final mask) → a configured
  KSK whose fold overflows; C03-3 (`zip` truncating the bundle list to the schema) → a schema
  with fewer slots than the KSR has bundles; C17-3 (bundle table drops fractional seconds) →
  the table is now read back and compared with the parsed instants; C10-3 → a re-keyed KSR that
  re-uses the published identifiers.
* Round 3, missed on first run by the property's own check (all now caught with a failing input):
  C05-4 (`if not overlap: continue` - a zero overlap skips the overlap rule) -> back-to-back bundles
  under every flag subset; C06-4 (size comparison skipped when the exponent is waived) -> declared
  size mismatch with the waiver on; C07-4 (process-wide cache of decoded keys by identifier) -> a
  later bundle listing another key under a known identifier, signed by the first key; C09-4
  (`create_skr` copies publish_safety into retire_safety; caught by C02's header check, not by
  C09's) -> SKRs made by the real `create_skr` under unequal periods fed to the safety check;
  C01-4 (EC point unwrapping without the inner 0x04 test; caught by C15's check) -> an EC KSK whose
  X coordinate starts with the wrapper's length octet in C01's signing scenarios. Reported only
  through the correspondence at first: C08-4 (replay test on (id, serial)) - my replayed-id KSRs
  also re-used the bundle ids, so another rule refused them; they now carry fresh bundle ids and
  other serials; C12-4 (attribute regexp accepting either quote) -> apostrophes and other
  ordinary characters in attribute values of the conformant documents (and the harness no longer
  stops when the reader refuses a conformant document: that is now a reported violation; the
  launcher also turns any harness stop into a `no-failing-input-found` violation).
* Round 3, added after reading the descriptions and before the first run: C17-4 (hex digest printed
  without leading zeros) -> documents and blobs steered to digests starting with 0 / 00 / 000;
  C15-4 = C01-4; C04-4 (validity timestamps re-labelled as UTC) -> the window lattice written with
  UTC offsets; C02-4 (module-level key cache by label) -> two ceremonies in one process whose
  tokens hold different keys under the same labels; C03-4 (output opened before serialising) -> a
  ceremony whose SKR cannot be serialised, output path watched; C08-4 see above.
* Everything else in the three rounds was caught by the check as it stood.

### 10.9 Running it

`./setup.sh` (once per checkout; regenerates `coq/Gen`, full build), then `./check Cnn --tier
quick|thorough`. Every run regenerates the pieces of `coq/Gen` the property depends on from
`/repo`'s working tree, rebuilds `Props/Cnn.v` and its cone, re-evaluates the correspondence
and rewrites `evidence/Cnn.json`. Quick runs take 4-50 s per property (C12/C13: 1-2 min because
of the watchdog budget, which is CPU time of the loading process, not wall-clock), the whole
quick pass about 10 min on 16 cores; thorough runs take up to 6 min (C08) — the last full
thorough pass over all twenty properties took 27 min and reported no violation on the unchanged
tree. `vp check` (fresh copy, no network, every quick command once) reported nothing needing
attention. `coqchk -o` over the twenty `Props` files was run at the end of the build phase:
no axioms (`evidence/coqchk.txt`).
"""
d = open(f"{V}/DESIGN.md").read()
i = d.find("\n---------------------------------------------------------------------------------------------\n\n## 10. As built")
if i >= 0:
    d = d[:i]
open(f"{V}/DESIGN.md", "w").write(d.rstrip("\n") + "\n" + txt)
print("DESIGN.md section 10 rebuilt,", n, "seeded changes")
