#!/usr/bin/env python3
"""Rebuild MANIFEST.json from tools/claims.json (per-property texts) + properties.jsonl."""
import json
from pathlib import Path
V = Path('/verif')
props = [json.loads(l) for l in open(V / 'properties.jsonl')]
claims = json.load(open(V / 'tools/claims.json'))
m = json.load(open(V / 'MANIFEST.base.json'))
m['checks'] = []
m['not_applicable'] = []
for p in props:
    i = p['id']
    c = claims.get(i)
    if not c or not c.get('claimed'):
        m['not_applicable'].append({"property_id": i, "reason": (c or {}).get('reason', 'check not built yet (work in progress); the technique applies - see DESIGN.md section 5')})
        continue
    m['checks'].append({
        "property_id": i,
        "quick_cmd": f"./check {i} --tier quick",
        "thorough_cmd": f"./check {i} --tier thorough",
        "evidence_file": f"/verif/evidence/{i}.json",
        "replay_cmd_template": f"./check {i} --replay {{path}}",
        "engine": "coq-model+correspondence",
        "level_claimed": {"category": "proof", "text": c['text'], "design_ref": c.get('design_ref', f"DESIGN.md section 5, {i}")},
        "level_note": c['note'],
        "technique": c['technique'],
    })
m['engines'][0]['serves_properties'] = [c['property_id'] for c in m['checks']]
json.dump(m, open(V / 'MANIFEST.json', 'w'), indent=1)
print(len(m['checks']), 'claimed;', len(m['not_applicable']), 'not claimed')
