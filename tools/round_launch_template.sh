# Template used to create scratch worktrees and per-property prompts for a round of seeded changes (adjust /tmp/wNN and the id suffix). Not run by any registered command.
mkdir -p /tmp/w10/out && cd /repo && for i in $(seq -w 1 20); do git worktree add -q --detach /tmp/w10/C$i HEAD; done; cd /verif && python3 - <<'EOF'
import json,glob,re
props={}
for l in open('/verif/properties.jsonl'):
    d=json.loads(l); props[d['id']]=d
avoid={}; files={}
for f in sorted(glob.glob('/verif/seeded/C*/meta.json')):
    m=json.load(open(f)); sid=m['id']; pid=m['property']
    notes=[l.strip() for l in open(f.replace('meta.json','notes.md')).read().splitlines() if l.strip()]
    t=notes[0].lstrip('# ')
    if len(t)<25 and len(notes)>1: t=t+" - "+notes[1].lstrip('-* ')[:160]
    avoid.setdefault(pid,[]).append(t[:180].replace("\\","/"))
    files.setdefault(pid,set()).update(m['files'])
base=open('/dev/null').read()
tmpl='''You are helping evaluate a verification tool by producing ONE realistic breaking change ("mutation") to an open-source Python code base, iana-org/dnssec-keytools (IANA's DNSSEC root KSK management tools).

Your scratch copy of the repository is the git worktree at {wt} (work ONLY there; never touch /repo, /verif or any other /tmp/w10/* directory; do NOT use `git stash`, `git worktree`, or `git checkout <branch>` - the object store is shared with other people). Python: /venv/bin/python with PYTHONPATH={wt}/src. The existing test suite is run with:
  cd {wt} && PYTHONPATH={wt}/src /venv/bin/python -m pytest -q -p no:cacheprovider src/kskm 2>&1 | tail -3
On the unchanged tree it ends with "147 passed" (plus some skipped and 24 errors that are SoftHSM-dependent and expected; the count of passed tests must stay 147 and no test may newly fail).

The semantic property your change must BREAK:

  id: {pid}
  title: {title}
  statement: {statement}
  holds over: {quant}
  code anchors: {anchors}

Other people have already proposed the following changes for this property; yours must be DIFFERENT IN KIND (do not repeat or vary these):
{avoid}
Files already changed by them: {files}. Strongly prefer a file and function none of them touched - the property depends on much more code than the anchors: data classes and their validators (common/data.py, common/config_misc.py), parsing helpers (common/parse_utils.py, ksr/parse_utils.py, skr/load.py), public-key classes (common/public_key.py, rsa_utils.py, ecdsa_utils.py), signature helpers (common/signature.py), display/logging helpers, and the tool entry points. Nine rounds of such changes have been proposed already, so the obvious places are taken. Good hunting grounds now: the way the code uses its libraries (pydantic model options and validators, datetime/timezone arithmetic, base64 and struct, re flags and anchors, hashlib, pathlib/open modes, logging formatting, argparse defaults) and the option handling of the stand-alone tools (kskm-ksrsigner, kskm-trustanchor, kskm-keymaster, kskm-wksr, kskm-sha2wordlist); also: look at the code the property depends on indirectly - helpers that format, compare, sort, convert or cache values; what happens on the error and clean-up paths (partial output, state left behind after an exception); interactions between two features that are each fine alone (two HSM modules and revocation, a previous SKR and --force, ECDSA keys and hash_using_hsm, several bundles sharing a key); values at the edge of their documented range (TTL 0 or 2^31-1, serial 0, one bundle, nine bundles, the longest legal label, key tag 0 or 65535, dates at the end of a month, a leap day, year 9999). Aim for a change whose effect shows only on an unusual but legitimate input or situation (a boundary value, an unusual but valid document layout, a second call in the same process, an uncommon configuration option, a rarely used code path such as revocation, ECDSA keys, several HSM modules, the --force / --debug / log-contents options, the stand-alone tools) - something a reviewer skimming the diff would wave through. Kinds of slip that are welcome: state kept between calls (module-level variables, caches, mutable default arguments, class attributes shared between instances); dependence on the process environment (time zone, locale, working directory, umask, environment variables); reliance on iteration order of sets/dicts or on object identity instead of equality; integer/bytes boundary cases (lengths 127/128/255/256, leading zero octets, sign, off-by-one in slices and ranges); an `except` clause that became broader or narrower; an early `return`/`break`/`continue` inside a loop; a default value or Optional handled by truthiness; string methods with subtly different semantics (strip vs removeprefix, split vs partition, startswith tuple, casefold, isdigit vs isdecimal).

Across ALL properties the following slips have already been used by somebody, so do not use them even if the list above for your property does not show them: reading zone-less timestamps in the local time zone (astimezone); str.splitlines() in the XML writer; pairing bundles with schema slots by position (zip over dict values); assert instead of raise; functools caches on file loaders or key decoders keyed by path or identifier; per-module memo of located keys; set() over key tags; exclusive upper bounds (lt instead of le) on TTL / key tag / exponent; truthiness filters on configuration dicts; and/or precedence; wrong policy flag read; missing O_TRUNC; broader except around token look-ups; argparse parent parsers.

Task: make one small source change under {wt}/src/kskm (a few lines) of the kind a maintainer could plausibly make by mistake during a refactoring, optimisation, dependency upgrade, type-annotation clean-up, "pythonic" rewrite (comprehensions, any/all, sets, walrus, dict.get defaults, truthiness tests, min/max, sorted keys, slicing) - not sabotage, no dead giveaways in names or comments - such that:
  1. the code still imports and runs, and the existing test suite above still shows 147 passed with no new failures;
  2. the property above no longer holds for SOME inputs/situations, while ordinary "happy path" use behaves as before (the subtler and the more it needs a particular input, ordering, boundary value or sequence to show, the better);
  3. it must be a genuine violation of the property as stated (an observer who only knows the property text and can run the tools would call the behaviour wrong), not merely a different error message or exception class.

Deliverables, all written to the directory /tmp/w10/out/{pid}-11/ (create it):
  - patch.diff : output of `git -C {wt} diff` (must apply with `git apply` to a clean checkout of the same commit);
  - demo.py : a self-contained Python script that exits 0 when the property holds on the tree it is pointed at and exits 1 (printing what went wrong) when it does not; it must take the source directory from the environment variable KSKM_SRC (default {wt}/src), inserting it at the front of sys.path; it must exit 0 on the unchanged tree and 1 on your changed tree. It may use whatever is installed in /venv (cryptography, dnspython, pydantic, PyYAML, PyKCS11 python module - but there is no PKCS#11 library/SoftHSM, so fake the token by substituting duck-typed objects where needed; fastapi/starlette are NOT installed - stub them if you need kskm.wksr);
  - notes.md : 10-20 lines, first line a one-sentence title of the change; then: file/function changed, which part of the property breaks, why the existing tests do not notice, what input or situation is needed to see it.
Verify all three conditions yourself before finishing (run the suite on your changed tree; run demo.py against both the unchanged code - e.g. `git -C {wt} diff > /tmp/w10/out/{pid}-11/patch.diff; git -C {wt} apply -R /tmp/w10/out/{pid}-11/patch.diff`, run, then re-apply - and the changed tree). Leave your change applied in the worktree when you finish. In your final message give a five-line summary.'''
for pid,d in props.items():
    wt=f"/tmp/w10/{pid}"
    anchors="; ".join(m['where'] for m in d['anchors']['mechanism'])
    av="\n".join("  - "+a for a in avoid.get(pid,[]))
    open(f"/tmp/w10/prompt_{pid}.txt","w").write(tmpl.format(wt=wt,pid=pid,title=d['title'],statement=d['statement'],quant=d['quantifier']['text'],anchors=anchors,avoid=av,files=", ".join(sorted(files.get(pid,[])))))
print(len(open('/tmp/w10/prompt_C01.txt').read()))
EOF