#!/usr/bin/env python3
"""Apply every seeded change to /repo in turn, run the check(s) of its property, undo; write seeded/<id>/meta.json and seeded/RESULTS.json.
Usage: tools/seed_matrix.py [seed-id ...]   (never commits anything to /repo)"""
import json
import os
import re
import subprocess
import sys

V = "/verif"
EXTRA = {"C01-8": ["C04"], "C02-8": ["C09"], "C03-8": ["C15"], "C04-8": ["C16", "C06"], "C05-8": ["C12"], "C06-8": ["C07", "C12", "C14"], "C07-8": ["C01", "C14"], "C08-8": ["C15", "C04"],
         "C09-8": ["C03"], "C10-8": ["C11", "C02"], "C11-8": ["C03", "C09"], "C12-8": ["C06", "C07"], "C14-8": ["C18"], "C15-8": ["C04"], "C16-8": ["C01", "C02"], "C17-8": ["C13"], "C18-8": ["C14"],
         "C19-8": ["C16"], "C20-8": ["C08"],
         "C01-9": ["C15"], "C02-9": ["C03"], "C08-9": ["C10", "C20"], "C09-9": ["C16"], "C10-9": ["C08"], "C12-9": ["C07"], "C13-9": ["C20"], "C14-9": ["C02"], "C15-9": ["C01"],
         "C16-9": ["C06"], "C18-9": ["C14"], "C20-9": ["C08"],
         "C01-10": ["C04", "C08"], "C02-10": ["C11"], "C04-10": ["C14", "C19"], "C05-10": ["C16"], "C06-10": ["C10"], "C07-10": ["C12"], "C08-10": ["C09", "C20"], "C10-10": ["C02"],
         "C11-10": ["C12", "C10"], "C12-10": ["C05"], "C13-10": ["C07"], "C14-10": ["C18", "C04"], "C15-10": ["C01"], "C16-10": ["C08"], "C17-10": ["C10"], "C18-10": ["C17"],
         "C20-10": ["C06", "C12"],
         "C02-11": ["C12"], "C03-11": ["C08", "C12"], "C04-11": ["C18"], "C07-11": ["C12"], "C08-11": ["C07", "C14"], "C09-11": ["C12"], "C10-11": ["C08"], "C12-11": ["C03", "C08"],
         "C13-11": ["C05"], "C14-11": ["C07"], "C16-11": ["C04"], "C17-11": ["C09"], "C19-11": ["C16"], "C20-11": ["C13"],
         "C01-7": ["C02"], "C02-7": ["C15", "C14", "C01"], "C03-7": ["C09"], "C04-7": ["C05", "C07"], "C06-7": ["C16"], "C07-7": ["C14", "C06"], "C08-7": ["C10", "C13"], "C09-7": ["C03", "C17"],
         "C10-7": ["C09", "C03"], "C11-7": ["C10", "C02"], "C12-7": ["C06", "C07"], "C14-7": ["C18", "C19", "C04"], "C15-7": ["C19"], "C17-7": ["C11", "C03"], "C18-7": ["C14"], "C19-7": ["C14", "C18", "C06"],
         "C01-6": ["C02", "C11"], "C02-6": ["C01", "C18"], "C03-6": ["C08", "C16"], "C04-6": ["C19", "C18"], "C05-6": ["C16"], "C06-6": ["C20"], "C07-6": ["C05", "C12"], "C08-6": ["C07", "C10"],
         "C09-6": ["C20", "C08", "C10"], "C10-6": ["C08", "C13"], "C11-6": ["C20"], "C12-6": ["C11"], "C13-6": ["C08", "C10"], "C14-6": ["C18", "C15"], "C16-6": ["C03"], "C18-6": ["C15", "C19", "C04"],
         "C19-6": ["C15", "C18"], "C20-6": ["C05"],
         "C01-5": ["C02", "C18"], "C02-5": ["C11"], "C03-5": ["C07", "C08", "C09"], "C04-5": ["C15"], "C05-5": ["C16"], "C06-5": ["C07", "C18"], "C07-5": ["C06", "C18"], "C08-5": ["C10"],
         "C09-5": ["C03"], "C10-5": ["C08"], "C11-5": ["C03"], "C12-5": ["C06"], "C13-5": ["C16"], "C14-5": ["C01"], "C15-5": ["C04"], "C16-5": ["C05", "C13"], "C18-5": ["C14"], "C19-5": ["C18"], "C20-5": ["C08"],
         "C01-4": ["C15", "C14"], "C15-4": ["C14", "C01"], "C02-4": ["C04", "C01"], "C09-4": ["C02", "C10"], "C10-4": ["C09"], "C03-4": [], "C08-4": ["C10", "C20"], "C12-4": ["C13"], "C07-4": ["C06"],
         "C01-3": ["C02", "C14"], "C02-3": ["C01", "C14"], "C14-3": ["C02"], "C18-3": ["C14"], "C10-3": ["C08"], "C03-3": ["C02"], "C16-3": ["C06"], "C09-3": ["C10"],
         "C01-1": ["C14", "C07"], "C14-2": ["C07"], "C10-1": ["C08"], "C10-2": ["C09"], "C16-1": ["C06"], "C11-2": ["C12", "C13"], "C12-1": ["C13"], "C13-1": ["C12"]}


def sh(cmd, **kw):
    return subprocess.run(cmd, shell=True, capture_output=True, text=True, **kw)


def main():
    ids = sys.argv[1:] or sorted(d for d in os.listdir(f"{V}/seeded") if re.fullmatch(r"C\d\d-\d+", d))
    claimed = {p["property_id"] for p in json.load(open(f"{V}/MANIFEST.json"))["checks"]}
    results = {}
    for sid in ids:
        d = f"{V}/seeded/{sid}"
        prop = sid.split("-")[0]
        if sh("git -C /repo diff --quiet").returncode != 0:
            print("/repo dirty", file=sys.stderr)
            return 2
        notes = open(f"{d}/notes.md").read().splitlines()
        title = next((l.lstrip("# ").strip() for l in notes if l.strip()), sid)
        files = re.findall(r"^\+\+\+ b/(\S+)", open(f"{d}/patch.diff").read(), re.M)
        conf = open(f"{d}/confirm.txt").read().strip() if os.path.exists(f"{d}/confirm.txt") else ""
        meta = {"id": sid, "property": prop, "title": title, "files": files, "demonstration": "demo.py (exit 0 on the unchanged tree, 1 with the change)",
                "confirmation": conf, "checks": {}}
        if sh(f"git -C /repo apply {d}/patch.diff").returncode != 0:
            meta["applies"] = False
            results[sid] = meta
            continue
        meta["applies"] = True
        try:
            for chk in [prop] + ([] if os.environ.get("MATRIX_OWN_ONLY") else EXTRA.get(sid, [])):
                if chk not in claimed:
                    meta["checks"][chk] = {"status": "no check"}
                    continue
                r = sh(f"cd {V} && VERIF_TIER=quick ./check {chk}", timeout=1800)
                lines = [l for l in r.stdout.splitlines() if l.startswith("VIOLATION")]
                concrete = [l for l in lines if not l.rstrip().endswith("no-failing-input-found")]
                summary = next((l for l in r.stdout.splitlines() if l.startswith(f"[{chk}]")), "")
                example = ""
                if concrete:
                    m = re.search(r"replay=(\S+)", concrete[0])
                    try:
                        example = json.load(open(m.group(1)))["what"][:300]
                    except Exception:  # noqa: BLE001
                        pass
                meta["checks"][chk] = {"exit": r.returncode, "violation_lines": len(lines), "with_failing_input": len(concrete),
                                       "detected": r.returncode == 1 and bool(lines), "summary": summary, "example": example}
                print(sid, chk, meta["checks"][chk]["detected"], len(concrete), "concrete", flush=True)
        finally:
            sh("git -C /repo checkout -- .")
        json.dump(meta, open(f"{d}/meta.json", "w"), indent=1)
        results[sid] = meta
    allr = {}
    if os.path.exists(f"{V}/seeded/RESULTS.json"):
        allr = json.load(open(f"{V}/seeded/RESULTS.json"))
    allr.update({k: {c: {kk: vv for kk, vv in r.items() if kk != "summary"} for c, r in v["checks"].items()} for k, v in results.items()})
    json.dump(allr, open(f"{V}/seeded/RESULTS.json", "w"), indent=1, sort_keys=True)
    return 0


if __name__ == "__main__":
    sys.exit(main())
