#!/bin/bash
# tools/try_seed.sh <seeded-id> <PROP> [tier]: apply a seeded change to /repo, run the check, undo.
set -u
S=/verif/seeded/$1; P=$2
git -C /repo diff --quiet || { echo "/repo dirty"; exit 2; }
git -C /repo apply $S/patch.diff || { echo "patch does not apply"; exit 2; }
trap 'git -C /repo checkout -- .' EXIT
cd /verif && VERIF_TIER=${3:-quick} ./check $P 2>&1 | grep -E "^(VIOLATION|KNOWN|\[)" | head -8
